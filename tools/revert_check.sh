#!/bin/bash
# Reverse sensitivity: with one "fix:" commit reverted (in /repo's working tree, undone afterwards)
# the recorded minimised violation of that defect must reproduce again; on the fixed tree it must not.
cd /verif || exit 2
git -C /repo diff --quiet || { echo "/repo has local changes"; exit 2; }
while read -r commit file; do
  [ -z "$commit" ] && continue
  git -C /repo revert -n "$commit" >/dev/null 2>&1 || { echo "$commit $file: revert does not apply cleanly (later fix touches the same lines)"; git -C /repo revert --abort 2>/dev/null; git -C /repo reset -q --hard HEAD; continue; }
  ./check.sh --build >/dev/null 2>&1
  r=$(./target/sim/simcheck x --replay findings/$file | tail -1 | cut -c1-60)
  git -C /repo reset -q --hard HEAD
  echo "$commit reverted: $file -> $r"
done <<'TAB'
676e6b1 D01-partial-frame-survives-close.json
53501e0 D02-connect-topic-alias-maximum-0-panics.json
2d03042 D03a-publish-id-0-auto-response-panics-v50.json
2d03042 D03b-publish-id-0-auto-response-panics-v311.json
a10deba D04-release-id-0-panics.json
0170dcf D06-second-connack-on-established-connection.json
511a30a D07-qos-publish-accepted-but-neither-sent-nor-stored.json
3b5df30 D08-pubrel-queued-offline-not-awaited.json
61b052e D09-handled-qos2-ids-survive-new-session.json
d78d731 D10-qos2-recorded-handled-before-alias-validation.json
5d6791d D11-keep-alive-timeout-inherited.json
944153b D12-too-large-refusal-keeps-id.json
3173f44 D13-alias-recorded-before-receive-maximum-refusal.json
3436409 D14-auto-alias-after-size-check.json
e162498 D15-oversize-stored-dropped-leaves-awaited-ack.json
cbd8f24 D16a-resume-retransmission-does-not-rearm-pingreq-v311.json
a165393 D16b-resume-retransmission-does-not-rearm-pingreq-v50.json
269cd5a D17-server-connack-without-session-keeps-old-session.json
b26f247 D19-pubcomp-of-earlier-connection-underflows.json
5c62f4d D20-pubrec-no-matching-subscribers-treated-as-error.json
2e590d7 D22-v311-unsuback-u32-remaining-length.json
b3d3866 D23-alias-bound-by-queued-publish.json
362c262 D24-nonpersistent-close-keeps-store.json
362c262 K01-offline-queued-packet-kept.json
e7bc077 D27-keep-alive-timeout-without-close-when-disconnect-does-not-fit.json
TAB
./check.sh --build >/dev/null 2>&1
for f in findings/D*.json findings/K01*.json; do echo "fixed tree: $f -> $(./target/sim/simcheck x --replay $f | tail -1 | cut -c1-40)"; done | grep -v "no violation" ; echo done
