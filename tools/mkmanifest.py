#!/usr/bin/env python3
"""Regenerates /verif/MANIFEST.json from the table below (run after adding a check)."""
import json, subprocess, sys
CLAIMED = {
 "C01": ("exploration", "pair driver: real client object + real server object over a simulated transport (chunking, interleaving, loss at any byte with independent notification, half-open sending, write failure, keep-alive expiry, broker object replaced + session restored); ledger of tagged publishes (exactly-once / at-least-once / at-most-once, original topic and payload), no protocol error about the peer, bounded drain, quiescence of both ends; both ends also under the per-endpoint reference models", "5 C01"),
 "C09": ("fault_enumeration", "twin driver: reference feeding (one frame per buffer) vs the same byte stream under every partition with at most 2 cuts of one burst per sampled history (bursts up to 40 bytes; longer: all single cuts + seeded pairs), the all-single-bytes partition and seeded partitions; independent framing in the harness checks every call consumes at most one frame", "5 C09"),
 "C10": ("exploration", "twin driver: object reused after any first-connection history (incl. adversarial traffic, partial frame, armed timers) and notify_closed vs a freshly constructed object, same new-session script; trace equality and state-digest equality through the hook", "5 C10"),
 "C11": ("exploration", "exhaustive role x version x status x 33 representative packets x {none, persistent, offline} matrix on states reached by real handshakes, spec gate table as oracle, digest comparison for 'as if not made'; compile-time Sendable table probe; refused call injected into random sessions (twin)", "5 C11"),
 "C16": ("fault_enumeration", "twin driver: every prefix of each sampled history is a crash point; object restored from the export vs object that only lost its transport, same continuation; trace and state-digest equality; duplicated export entries", "5 C16"),
 "C17": ("exploration", "exhaustive role x version x status x 16 type nibbles (+ unsupported CONNECT levels) matrix with the spec gate table as oracle and session-digest comparison; undetermined server vs fixed-version server in lock-step on random sessions incl. adversarial traffic", "5 C17"),
 "C20": ("exploration", "alloc driver: all op sequences of length 5 over five small ranges (exhaustive) + seeded long histories over u16/u32 ranges incl. the extremes against a BTreeSet model; representation invariant through the hook; in-situ invariant in connection runs", "5 C20"),
 "C05": ("exploration", "solo driver: contract-respecting application + scripted/adversarial peer; panic (catch_unwind, overflow checks + debug assertions on), finite event list, no silently swallowed frame (independent framing), reconnect after close", "5 C05"),
 "C06": ("exploration", "solo driver: ordered-store reference model compared with get_stored_packets() after every call; unmatched acknowledgements, resume retransmission list, session-not-present reset; faults: loss, crash/restore, wrong/duplicate acks, write failure", "5 C06"),
 "C07": ("exploration", "solo driver: per-id two-state model of inbound QoS 2 under duplication, reconnects (clean/resumed), crash with export/restore of the handled set, manual/automatic responses", "5 C07"),
 "C08": ("exploration", "solo driver: id-set conservation model with owed releases (completion, refusal, close), in-use set compared through the hook and by register/release probing at quiescence", "5 C08"),
 "C12": ("exploration", "solo driver: flow-control counter model in both directions; vacancy compared after every call; quiescence returns to M", "5 C12"),
 "C13": ("exploration", "solo driver: independent model of the receiver's alias table fed by every PUBLISH requested for sending; receive side against the model of the local table", "5 C13"),
 "C14": ("exploration", "solo driver: size monitor on every send request with limits drawn around actual packet sizes; receive-side limit", "5 C14"),
 "C15": ("exploration", "solo driver: armed-timer model on a discrete-event clock; cancel/arm consistency, re-arm rules, expiry effects", "5 C15"),
 "C19": ("exploration", "order monitor on every event list of every solo run", "5 C19"),
}
NA = {
 "C02": "pure function of builder inputs (no schedule, clock, fault or history): not a simulation target",
 "C03": "pure function of field values; needs an independent full codec, not a simulator",
 "C04": "pure function of a byte string: parser totality is fuzzing/property testing, not simulation",
 "C18": "finite static table over builder/parser inputs; no schedule, fault or history dimension",
}
PENDING = {}
def main():
    hooks = subprocess.run(["git","-C","/repo","log","--format=%h %s"],capture_output=True,text=True).stdout.splitlines()
    hook_commits=[l.split()[0] for l in hooks if l.split(" ",1)[1].startswith("verif-hooks")]
    checks=[]
    for pid,(level,text,ref) in sorted(CLAIMED.items()):
        checks.append({
          "property_id": pid,
          "quick_cmd": f"./check.sh {pid} quick",
          "thorough_cmd": f"./check.sh {pid} thorough",
          "evidence_file": f"/verif/evidence/{pid}.json",
          "replay_cmd_template": "./check.sh --replay {path}",
          "engine": "simcheck",
          "level_claimed": {"category": level, "text": text, "design_ref": "DESIGN.md section "+ref},
          "level_note": "trusted base: the harness's wire codec and reference models (written from the MQTT specifications), the usage contract of the application stub (DESIGN 2.4), the read-only verif-hooks accessors; a clean batch is evidence over sampled schedules, not a proof",
          "technique": "deterministic simulation with fault injection: seeded search over op schedules, chunkings and fault sequences against executable reference models; minimised replay files",
        })
    na=[{"property_id":k,"reason":v} for k,v in sorted({**NA,**PENDING}.items())]
    m={
      "version":1,
      "setup_cmd":"./check.sh --build",
      "hooks":{"guard":"cargo feature verif-hooks","enable":"sim/Cargo.toml depends on mqtt-protocol-core = { path = \"/repo\", features = [\"verif-hooks\"] }","baseline_off_cmd":"cd /repo && cargo nextest run --workspace --no-fail-fast --offline","source_commits":hook_commits,"add_only":True},
      "engines":[{"name":"simcheck","path":"/verif/sim","serves_properties":sorted(CLAIMED.keys()),"kind_free_text":"single-process deterministic simulator (Rust): real connection objects behind dyn Endpoint, simulated transport/clock/application/peer/persistence, PRNG-driven scheduler, ddmin shrinker, replay files"}],
      "checks":checks,
      "not_applicable":na,
      "notes":"VERIF_SEED selects the master seed (default 1). Known findings: KNOWN_FINDINGS.txt. Minimised violations of repaired defects: findings/*.json (replay with ./check.sh --replay). corpus/<id>/*.json: recorded schedules that every check re-plays after its seeded batch (DESIGN 7). seeded/: independent changes used to test the checks (DESIGN 14).",
    }
    json.dump(m,open("/verif/MANIFEST.json","w"),indent=1)
    print("claimed",len(checks),"na",len(na))
if __name__=="__main__":
    if len(sys.argv)>1:
        PENDING.update({p:"check not built yet in this snapshot (planned, see DESIGN.md Appendix B)" for p in sys.argv[1:]})
    main()
