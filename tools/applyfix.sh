#!/bin/bash
# usage: applyfix.sh <patch> "<commit message>"  -- apply a candidate repair to /repo, run the pinned suite, commit
set -e
cd /repo
git apply --recount -C1 "$1" || patch -p1 --no-backup-if-mismatch < "$1"
out=$(cargo nextest run --workspace --no-fail-fast --offline 2>&1 | tail -3)
echo "$out"
echo "$out" | grep -q "1464 passed" || { echo "SUITE FAILED"; exit 1; }
git add -A
git commit -q -m "$2"
git log --oneline | head -1
