#!/bin/bash
# usage: harvest_corpus.sh <harvest dir written by HARVEST_DIR=... tools/seeded_all.sh>
# Every harvested replay that is silent on the unchanged tree becomes a corpus case
# corpus/<property>/<change>-<class>.json (at most three per change, shortest first).
cd "$(dirname "$0")/.." || exit 2
H="$1"; BIN=$(./check.sh --bin | tail -1) || exit 2
for d in "$H"/*/; do
  m=$(basename "$d"); p=${m%-*}; n=0
  for f in $(ls -S -r "$d"*.json 2>/dev/null); do
    [ $n -ge 3 ] && break
    $BIN $p --replay "$f" >/dev/null 2>&1; rc=$?
    if [ $rc -eq 0 ]; then
      cls=$(python3 -c "import json,sys,re; print(re.sub(r'[^A-Za-z0-9-]','_',json.load(open(sys.argv[1]))['class'])[:60])" "$f")
      mkdir -p corpus/$p
      python3 - "$f" "corpus/$p/$m-$cls.json" "$m" <<'PY'
import json,sys
d=json.load(open(sys.argv[1]))
out={"origin":"minimised history that exposed the seeded change "+sys.argv[3]+" (class "+d["class"]+"); silent on the unchanged tree","case":d["case"]}
json.dump(out,open(sys.argv[2],"w"),indent=1)
PY
      n=$((n+1))
    else
      echo "$m: $f is not silent on the unchanged tree (rc=$rc): skipped"
    fi
  done
  echo "$m: $n corpus cases"
done
