#!/bin/bash
# Re-runs every kept seeded change against the check of the property it was written against
# (quick tier, VERIF_SEED=1), each in a scratch worktree of /repo's HEAD with a shadow build of the
# simulator; /repo's working tree is never touched. Prints one line per change; exit 1 if one is missed.
# usage: seeded_all.sh [pattern]        e.g. seeded_all.sh 'C0[5-9]-*'
# With HARVEST_DIR=<dir> the minimised replay files of each change are collected in <dir>/<change>/
# (candidates for corpus/, see tools/harvest_corpus.sh).
cd "$(dirname "$0")/.." || exit 2
ROOT=$(pwd)
WT=/tmp/wt-seeded-$$
missed=0
for d in seeded/${1:-*}; do
  [ -f "$d/patch.diff" ] || continue
  m=$(basename "$d"); p=${m%-*}
  git -C /repo worktree remove --force $WT >/dev/null 2>&1
  git -C /repo worktree add -q --detach $WT HEAD || exit 2
  ( cd $WT && git apply "$ROOT/$d/patch.diff" ) || { echo "$m patch-does-not-apply"; missed=1; continue; }
  [ -n "$HARVEST_DIR" ] && rm -f replays/$p-*.json
  out=$(VERIF_REPO=$WT ./check.sh $p quick 2>&1); rc=$?
  if [ -n "$HARVEST_DIR" ]; then mkdir -p "$HARVEST_DIR/$m"; cp replays/$p-*.json "$HARVEST_DIR/$m/" 2>/dev/null; fi
  cls=$(echo "$out" | grep -E "^violation" | head -2 | sed -E 's/^violation class=([^ ]+).*/\1/' | tr '\n' ' ')
  if [ $rc -eq 1 ]; then echo "$m caught $cls"; else echo "$m MISSED exit=$rc"; missed=1; fi
  rm -rf "$ROOT/target/shadow-$(echo "$WT" | tr '/' '_')"
done
git -C /repo worktree remove --force $WT >/dev/null 2>&1
exit $missed
