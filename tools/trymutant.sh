#!/bin/bash
# usage: trymutant.sh <patch.diff> [PROP ...]
# Applies a seeded change to a scratch worktree of /repo's HEAD (never to /repo itself), runs the
# quick checks against it through a shadow build of the simulator, removes the worktree.
P="$1"; shift
PROPS="${@:-C01 C05 C06 C07 C08 C09 C10 C11 C12 C13 C14 C15 C16 C17 C19 C20}"
WT=${WT:-/tmp/wt-try}
git -C /repo worktree remove --force $WT >/dev/null 2>&1
git -C /repo worktree add -q --detach $WT HEAD || exit 2
( cd $WT && git apply "$P" ) || { echo "patch does not apply"; git -C /repo worktree remove --force $WT; exit 2; }
cd /verif
for p in $PROPS; do
  out=$(VERIF_REPO=$WT ./check.sh $p ${TIER:-quick} 2>&1); rc=$?
  v=$(echo "$out" | grep -E "^violation" | head -3 | cut -c1-260)
  echo "== $p exit=$rc"; [ -n "$v" ] && echo "$v"
  [ $rc -eq 2 ] && echo "$out" | grep -E "HARNESS|error" | head -5
done
git -C /repo worktree remove --force $WT
