#!/bin/bash
# usage: trymutant.sh <patch.diff> [PROP ...]   -- apply a seeded change to /repo, run the quick checks, undo it
P="$1"; shift
PROPS="${@:-C01 C05 C06 C07 C08 C09 C10 C11 C12 C13 C14 C15 C16 C17 C19 C20}"
cd /repo || exit 2
git diff --quiet || { echo "/repo has local changes"; exit 2; }
git apply "$P" || { echo "patch does not apply"; exit 2; }
cd /verif
for p in $PROPS; do
  out=$(VERIF_TIER=${TIER:-quick} ./check.sh $p ${TIER:-quick} 2>&1); rc=$?
  v=$(echo "$out" | grep -E "^violation" | head -3 | cut -c1-260)
  echo "== $p exit=$rc"; [ -n "$v" ] && echo "$v"
  [ $rc -eq 2 ] && echo "$out" | grep -E "HARNESS|error" | head -5
done
git -C /repo checkout -- .
