#!/bin/bash
# no-alarm sweep: every quick check under several master seeds; prints any alarm.
# With VERIF_REPO (or $VP_RUN_REPO from `vp run --with-repo`) the library snapshot is used, so that
# work in /repo does not disturb a sweep in the background.
cd "$(dirname "$0")/.." || exit 2
[ -n "$VP_RUN_REPO" ] && export VERIF_REPO="$VP_RUN_REPO"
BIN=$(./check.sh --bin | tail -1) || exit 2
for seed in "$@"; do
  for p in C01 C05 C06 C07 C08 C09 C10 C11 C12 C13 C14 C15 C16 C17 C19 C20; do
    out=$(VERIF_SEED=$seed $BIN $p --tier ${TIER:-quick} --no-evidence 2>&1); rc=$?
    echo "seed=$seed $p exit=$rc $(echo "$out" | grep -E '^violation|HARNESS' | head -3 | cut -c1-200)"
  done
done
