#!/bin/bash
# Determinism self-test: every property's adaptive runs are executed in separate processes
# (the library's hash containers are seeded per process) at 16 workers and at 1 worker and
# with two master seeds; the canonical trace hashes must agree. exit 2 on a mismatch.
cd "$(dirname "$0")/.." || exit 2
./check.sh --build || exit 2
N=${1:-3000}
rc=0
for p in C01 C05 C06 C07 C08 C09 C10 C11 C12 C13 C14 C15 C16 C17 C19 C20; do
  n=$N; case $p in C09) n=$((N/10));; C16) n=$((N/5));; esac
  for seed in 1 7; do
    a=$(./target/sim/simcheck $p --seed $seed --runs $n --threads 16 --trace-hash --no-evidence | grep TRACE-HASH)
    b=$(./target/sim/simcheck $p --seed $seed --runs $n --threads 1 --trace-hash --no-evidence | grep TRACE-HASH)
    c=$(./target/sim/simcheck $p --seed $seed --runs $n --threads 5 --trace-hash --no-evidence | grep TRACE-HASH)
    if [ "$a" != "$b" ] || [ "$a" != "$c" ] || [ -z "$a" ]; then echo "DETERMINISM MISMATCH $p seed=$seed: [$a] [$b] [$c]"; rc=2; else echo "ok $p seed=$seed runs=$n $a"; fi
  done
done
exit $rc
