#!/bin/bash
# Re-confirms every kept seeded change at /repo's current HEAD (scratch worktree): the patch applies,
# the pinned suite passes with it, its demonstration fails with it and passes without it.
# usage: reconfirm_all.sh [pattern]
cd "$(dirname "$0")/.." || exit 2
bad=0
for d in seeded/${1:-*}; do
  [ -f "$d/patch.diff" ] || continue
  r=$(./tools/confirm_mutant.sh "$(pwd)/$d" 2>&1 | grep RESULT)
  ok=1
  echo "$r" | grep -q "suite_with_patch=\[.*1464 passed" || ok=0
  echo "$r" | grep -q "demo_with_patch=\[.* failed" || ok=0
  echo "$r" | grep -qE "demo_without_patch=\[[^]]*failed" && ok=0
  echo "$r" | grep -q "demo_without_patch=\[.* passed" || ok=0
  if [ $ok -eq 1 ]; then echo "$(basename $d) confirmed"; else echo "$(basename $d) STALE $r"; bad=1; fi
done
git -C /repo worktree remove --force /tmp/wt-confirm >/dev/null 2>&1
exit $bad
