#!/bin/bash
# usage: confirm_mutant.sh <mutant dir with patch.diff + demo.rs>
# In the scratch worktree /tmp/wt-confirm (same commit as /repo HEAD): the patch applies, the pinned
# suite passes with it, demo.rs fails with it and passes without it.
D="$1"; WT=/tmp/wt-confirm
[ -d $WT ] || git -C /repo worktree add -q --detach $WT HEAD
cd $WT || exit 2
git checkout -q --detach $(git -C /repo rev-parse HEAD) 2>/dev/null
git checkout -- . ; rm -f tests/demo_mutant.rs
export CARGO_TARGET_DIR=$WT/target CARGO_NET_OFFLINE=true
git apply "$D/patch.diff" || { echo "RESULT apply=FAIL"; exit 1; }
suite=$(cargo nextest run --workspace --no-fail-fast --offline 2>&1 | tail -1)
cp "$D/demo.rs" tests/demo_mutant.rs
with=$(cargo nextest run --offline --test demo_mutant 2>&1 | grep -E "Summary|error\[" | tail -1)
git checkout -- src; git apply -R "$D/patch.diff" 2>/dev/null; git checkout -- .
cp "$D/demo.rs" tests/demo_mutant.rs
without=$(cargo nextest run --offline --test demo_mutant 2>&1 | grep -E "Summary|error\[" | tail -1)
rm -f tests/demo_mutant.rs
echo "RESULT suite_with_patch=[$suite] demo_with_patch=[$with] demo_without_patch=[$without]"
