#!/bin/bash
# usage: check.sh <PROPERTY> [quick|thorough]   |   check.sh --replay <file>   |   check.sh --build
# Rebuilds the simulator against /repo's current working tree (offline, incremental) and runs it.
# exit 0: property held on everything explored (known findings are printed as KNOWN-FINDING lines)
# exit 1: VIOLATION property=<id> replay=<path>
# exit 2: harness error (build failure, replay mismatch, undecodable packet ...)
cd "$(dirname "$0")" || exit 2
export CARGO_NET_OFFLINE=true
build() {
  (cd sim && cargo build --offline --profile sim 2>build.log) || { tail -30 sim/build.log; echo "HARNESS ERROR: build failed"; exit 2; }
}
case "$1" in
  --build) build; exit 0 ;;
  --replay) build; exec ./target/sim/simcheck replay --replay "$2" ;;
esac
ID="$1"
TIER="${2:-${VERIF_TIER:-quick}}"
build
exec ./target/sim/simcheck "$ID" --tier "$TIER"
