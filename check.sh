#!/bin/bash
# usage: check.sh <PROPERTY> [quick|thorough]   |   check.sh --replay <file>   |   check.sh --build
# Rebuilds the simulator against /repo's current working tree (offline, incremental) and runs it.
# exit 0: property held on everything explored (known findings are printed as KNOWN-FINDING lines)
# exit 1: VIOLATION property=<id> replay=<path>
# exit 2: harness error (build failure, replay mismatch, undecodable packet ...)
# VERIF_REPO=<dir> (tools only: seeded changes, background sweeps) builds a shadow copy of the
# simulator against another checkout of the library instead of /repo.
cd "$(dirname "$0")" || exit 2
export CARGO_NET_OFFLINE=true
BIN=./target/sim/simcheck
build() {
  if [ -n "$VERIF_REPO" ]; then
    SH=target/shadow-$(echo "$VERIF_REPO" | tr '/' '_')
    mkdir -p "$SH" && rm -rf "$SH/src" && cp -r sim/src sim/Cargo.lock "$SH/" || exit 2
    sed "s#path = \"/repo\"#path = \"$VERIF_REPO\"#" sim/Cargo.toml > "$SH/Cargo.toml"
    (cd "$SH" && cargo build --offline --profile sim --target-dir tgt 2>build.log) || { tail -30 "$SH/build.log"; echo "HARNESS ERROR: build failed"; exit 2; }
    BIN="$SH/tgt/sim/simcheck"
  else
    (cd sim && cargo build --offline --profile sim 2>build.log) || { tail -30 sim/build.log; echo "HARNESS ERROR: build failed"; exit 2; }
  fi
}
case "$1" in
  --build) build; exit 0 ;;
  --bin) build; echo "$BIN"; exit 0 ;;
  --replay) build; exec $BIN replay --replay "$2" ;;
esac
ID="$1"
TIER="${2:-${VERIF_TIER:-quick}}"
build
exec $BIN "$ID" --tier "$TIER"
