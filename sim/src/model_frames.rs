// Receive path: independent framing, per-frame expectations (included into model.rs).

impl Watch {
    /// ids may vanish without announcement only at a session reset; in lenient mode the
    /// protocol model is off and the in-use set is re-read from the hook instead.
    fn lenient_track(&mut self, _evs: &[Ev]) {}

    fn lenient_resync(&mut self) {
        if !self.use_hook {
            return;
        }
        let vs = self.ep.state();
        let maxid = max_id(self.pid32) as u64;
        let mut used = BTreeSet::new();
        let mut next = 1u64;
        for (lo, hi) in &vs.pid_free {
            if lo - next <= 4096 {
                used.extend((next..*lo).map(|x| x as u32));
            }
            next = hi + 1;
        }
        if next <= maxid && maxid + 1 - next <= 4096 {
            used.extend((next..=maxid).map(|x| x as u32));
        }
        self.m.ids = used;
        self.m.st = match vs.status {
            0 => St::Disc,
            1 => St::Connecting,
            _ => St::Connected,
        };
    }

    /// Feed one receive buffer. The application loops `recv` until the cursor is exhausted
    /// and stops reading once a close was requested. Returns the event lists per call.
    pub fn feed(&mut self, chunk: &[u8]) -> Vec<Vec<Ev>> {
        let reading = !self.stopped_reading() && self.viol.is_none();
        if let Some(c) = self.calls.as_mut() {
            if reading {
                c.push(WCall::Feed(chunk.to_vec()));
            }
        }
        let mut out = vec![];
        let mut pos = 0usize;
        while pos < chunk.len() && !self.failed() {
            if self.stopped_reading() {
                break;
            }
            let what = format!("recv(+{}B)", chunk.len() - pos);
            let st_before = self.m.st;
            let Some((evs, np)) = self.guarded(&what, &[], |ep| ep.recv_once(chunk, pos)) else { break };
            if np > chunk.len() || np < pos {
                self.flag(&["C09", "C05"], "cursor-out-of-buffer", format!("{what}: cursor moved from {pos} to {np} in a buffer of {}", chunk.len()));
                break;
            }
            if np == pos {
                self.flag(&["C05", "C09"], "recv-no-progress", format!("{what}: recv consumed nothing: {}", evs_short(&evs)));
                break;
            }
            // independent framing of everything received so far
            let before = self.rx.len();
            self.rx.extend_from_slice(&chunk[pos..np]);
            let (frame_end, bad) = match wire::scan(&self.rx) {
                Scan::Need => (None, false),
                Scan::Frame(n) => (Some(n), false),
                Scan::BadRl => (Some(5), true),
            };
            let known_before = match wire::scan(&self.rx[..before]) {
                Scan::Need => None,
                Scan::Frame(n) => Some(n),
                Scan::BadRl => Some(5),
            };
            // C09: a call never consumes beyond the end of the current frame
            let end = known_before.or(frame_end);
            if let Some(fe) = end {
                if self.rx.len() > fe {
                    // the list of that call is still a returned event list (C19)
                    let mut closed = false;
                    for e in &evs {
                        match e {
                            Ev::Close => closed = true,
                            Ev::Send { pkt, .. } if closed && self.deferred.is_none() => {
                                let step = self.step;
                                self.deferred = Some(Violation { props: vec!["C19"], class: format!("close-before-send/{}", wire::kind_name(pkt.kind)), msg: format!("{what}: RequestClose precedes {} in a list that covers more than one frame: {}", pkt.short(), evs_short(&evs)), step });
                            }
                            _ => {}
                        }
                    }
                    self.flag(&["C09"], "consumed-past-frame", format!("{what}: one recv call consumed {} bytes, {} beyond the end of the current frame", np - pos, self.rx.len() - fe));
                    break;
                }
            }
            pos = np;
            let complete = end.map_or(false, |fe| self.rx.len() == fe);
            if !complete {
                // more bytes could have been taken?
                if np < chunk.len() {
                    self.flag(&["C09"], "stopped-mid-frame", format!("{what}: recv returned with {} unread bytes although the frame is incomplete", chunk.len() - np));
                    break;
                }
                if !evs.is_empty() {
                    // a verdict on a kind this role may never receive, given before the frame is
                    // complete, leaves the rest of its body to be taken for new packets (C17)
                    let kind = self.rx.first().map_or(0, |b| b >> 4);
                    let v_eff = if self.m.ver == 0 { 4 } else { self.m.ver };
                    let props: &[&'static str] = if !crate::model::role_may_recv(self.role, v_eff, kind) { &["C09", "C17"] } else { &["C09"] };
                    self.flag(props, "events-before-frame-complete", format!("{what}: {}", evs_short(&evs)));
                    break;
                }
                out.push(evs);
                continue;
            }
            let frame = std::mem::take(&mut self.rx);
            self.stats.frames += 1;
            self.on_frame(&frame, bad, &evs, st_before);
            out.push(evs);
        }
        out
    }

    /// bytes of an incomplete frame currently buffered (model side)
    pub fn rx_pending(&self) -> usize {
        self.rx.len()
    }

    fn on_frame(&mut self, frame: &[u8], bad_rl: bool, evs: &[Ev], st_before: St) {
        use wire::*;
        let kind = frame[0] >> 4;
        let what = format!("recv[{} {}B]", kind_name(kind), frame.len());
        let delivered: Vec<&Pkt> = evs.iter().filter_map(|e| if let Ev::Recv { pkt } = e { Some(pkt) } else { None }).collect();
        let errored = evs.iter().any(|e| e.is_error());
        let sends: Vec<&Pkt> = evs.iter().filter_map(|e| if let Ev::Send { pkt, .. } = e { Some(pkt) } else { None }).collect();

        if bad_rl {
            let ok = errored && delivered.is_empty() && evs.iter().any(|e| matches!(e, Ev::Close));
            if !ok {
                self.flag(&["C09"], "overlong-remaining-length", format!("{what}: a 5-byte Remaining Length must be reported as an error with a close request: {}", evs_short(evs)));
                return;
            }
            self.stats.hit("c09_bad_remaining_length");
            self.lenient_track(evs);
            let allowed = self.m.ids.clone();
            self.common(evs, Ctx { allowed, st_before: Some(st_before), what, ..Default::default() });
            if self.lenient {
                self.lenient_resync();
            }
            return;
        }

        // C05: never silently swallowed
        let pubrec_dup = kind == PUBLISH && sends.iter().any(|p| p.kind == PUBREC);
        if delivered.is_empty() && !errored && !pubrec_dup {
            let mut props = vec!["C05"];
            if kind == PUBLISH && (frame[0] >> 1) & 3 == 2 {
                props.push("C07");
            }
            self.flag(&props, format!("frame-swallowed/{}/{:?}", kind_name(kind), st_before), format!("{what}: complete frame neither delivered, nor answered as a duplicate, nor reported as an error (state {:?}): {}", st_before, evs_short(evs)));
            return;
        }
        if delivered.len() > 1 {
            self.flag(&["C09", "C05"], "two-packets-from-one-frame", format!("{what}: {}", evs_short(evs)));
            return;
        }

        if self.lenient {
            // C17 without the protocol model: a kind this role may never receive is not delivered
            let v_now = self.ep.version();
            if v_now != 0 && !role_may_recv(self.role, v_now, kind) && !delivered.is_empty() {
                self.flag(&["C17"], format!("forbidden-kind-accepted/{}", kind_name(kind)), format!("{what} (fixed header {:#04x}): role {:?} v{} delivered {}", frame[0], self.role, v_now, evs_short(evs)));
                return;
            }
            // C14 without the protocol model: the locally announced limit (hook) still rules
            if self.use_hook && v_now == 5 && kind != CONNECT && kind != CONNACK {
                let vs = self.ep.state();
                // size as MQTT counts it: with the Remaining Length in its minimal encoding (a
                // forged frame may spell it with padding bytes)
                let rl_bytes = frame[1..].iter().take(4).take_while(|b| **b & 0x80 != 0).count() + 1;
                let rl = frame.len().saturating_sub(1 + rl_bytes);
                let canonical = 1 + if rl < 128 { 1 } else if rl < 16384 { 2 } else if rl < 2097152 { 3 } else { 4 } + rl;
                if canonical as u64 > vs.maximum_packet_size_recv as u64 {
                    // (adversarial frames may be wrong in more than one way - e.g. a non-minimal
                    // Remaining Length - so any DISCONNECT counts as the rejection here)
                    let disc = sends.iter().any(|p| p.kind == DISCONNECT);
                    let mut d = Pkt::new(5, DISCONNECT);
                    d.rc = Some(0x95);
                    let answer_fits = wire::encode(&d, self.idw).len() as u64 <= vs.maximum_packet_size_send as u64;
                    if !delivered.is_empty() || (st_before == St::Connected && answer_fits && !disc) {
                        self.flag(&["C14"], "oversize-received-not-rejected", format!("{what}: {} bytes exceed the local Maximum Packet Size {}: {}", canonical, vs.maximum_packet_size_recv, evs_short(evs)));
                        return;
                    }
                }
            }
            let allowed = self.m.ids.clone();
            self.common(evs, Ctx { allowed, st_before: Some(st_before), what, ..Default::default() });
            self.lenient_resync();
            return;
        }

        // decode with the version in force (an undetermined server learns it from CONNECT)
        let v = if self.m.ver != 0 { self.m.ver } else { 0 };
        let pkt = match wire::decode(frame, v, self.idw) {
            Ok(p) => p,
            Err(e) => {
                // strict mode only sends frames the harness encoder produced
                if delivered.is_empty() && errored {
                    self.m_after_error(evs);
                    let allowed = BTreeSet::new();
                    self.common(evs, Ctx { allowed, st_before: Some(st_before), what, ..Default::default() });
                } else {
                    self.flag(&[], "harness/undecodable-frame", format!("{what}: {e}"));
                }
                return;
            }
        };
        let what = format!("recv[{}]", pkt.short());
        let mut ctx = Ctx { st_before: Some(st_before), what: what.clone(), ..Default::default() };

        // C14 receive side: larger than the locally announced maximum
        if self.m.ver == 5 {
            if let Some(l) = self.m.mps_recv {
                if frame.len() > l as usize {
                    self.stats.hit("c14_oversize_received");
                    let disc = sends.iter().any(|p| p.kind == DISCONNECT && p.rc == Some(0x95));
                    // the answer itself must fit the peer's limit (the first clause of C14 wins
                    // where the two meet: a peer limit of 2 leaves no room for any DISCONNECT)
                    let mut d = Pkt::new(5, DISCONNECT);
                    d.rc = Some(0x95);
                    let answer_fits = self.m.mps_send.map_or(true, |m| wire::encode(&d, self.idw).len() <= m as usize);
                    if !delivered.is_empty() || !errored || (st_before == St::Connected && answer_fits && !disc) {
                        self.flag(&["C14"], "oversize-received-not-rejected", format!("{what}: {} bytes exceed the local Maximum Packet Size {l}: {}", frame.len(), evs_short(evs)));
                        return;
                    }
                    self.m_after_error(evs);
                    self.track_lib_sends(evs, None);
                    self.common(evs, ctx);
                    return;
                }
            }
        }

        // C14: a frame within the local limit must not be rejected as too large
        if evs.iter().any(|e| matches!(e, Ev::Send { pkt, .. } if pkt.kind == DISCONNECT && pkt.rc == Some(0x95))) {
            self.flag(&["C14"], "within-limit-frame-rejected-as-too-large", format!("{what}: {} bytes, local Maximum Packet Size {:?}: {}", frame.len(), self.m.mps_recv, evs_short(evs)));
            return;
        }
        // C17: role gating
        let v_eff = if self.m.ver != 0 { self.m.ver } else { pkt.v };
        if self.m.ver == 0 {
            // undetermined: only a CONNECT of level 4 or 5 is acceptable
            let ok_connect = kind == CONNECT && pkt.level == 0 && (pkt.v == 4 || pkt.v == 5);
            if !ok_connect {
                if !delivered.is_empty() || !errored {
                    self.flag(&["C17"], "undetermined-accepts-non-connect", format!("{what}: {}", evs_short(evs)));
                    return;
                }
                if self.ep.version() != 0 {
                    self.flag(&["C17"], "version-adopted-from-rejected-packet", format!("{what}: version now {}", self.ep.version()));
                    return;
                }
                self.m_after_error(evs);
                self.common(evs, ctx);
                return;
            }
        }
        if !role_may_recv(self.role, v_eff, kind) {
            self.stats.hit("c17_forbidden_kind");
            let proto = evs.iter().any(|e| e.err_code() == Some(E_PROTOCOL)) || (kind == 0 || (kind == AUTH && v_eff == 4)) && errored;
            if evs.iter().any(|e| matches!(e, Ev::TimerReset(..))) {
                self.flag(&["C17", "C15"], format!("forbidden-kind-acted-upon/{}", kind_name(kind)), format!("{what}: a packet this role may never receive re-armed a timer: {}", evs_short(evs)));
                return;
            }
            if !delivered.is_empty() || !proto || !sends.iter().all(|p| p.kind == DISCONNECT) {
                self.flag(&["C17"], format!("forbidden-kind-accepted/{}", kind_name(kind)), format!("{what}: role {:?} v{} must report a protocol error and not deliver or act: {}", self.role, v_eff, evs_short(evs)));
                return;
            }
            self.m_after_error(evs);
            self.track_lib_sends(evs, None);
            self.common(evs, ctx);
            return;
        }

        let mut accepted = !delivered.is_empty();
        // role `Any` has no receive gate, but the side it is acting as still decides what it may
        // act upon: a client never answers a PINGREQ
        if kind == PINGREQ && self.m.is_client && st_before != St::Disc && sends.iter().any(|p| p.kind == PINGRESP) {
            self.flag(&["C17"], "forbidden-kind-acted-upon/PINGREQ", format!("{what}: an endpoint acting as client answered a PINGREQ: {}", evs_short(evs)));
            return;
        }
        match kind {
            CONNECT => {
                if st_before != St::Disc {
                    self.stats.hit("c17_connect_on_established");
                    if sends.iter().any(|p| p.kind == CONNACK) {
                        self.flag(&["C17"], "connect-on-established-acted-upon", format!("{what}: a CONNECT on an established connection was answered with a CONNACK: {}", evs_short(evs)));
                        return;
                    }
                    if accepted || !errored {
                        self.flag(&["C17"], "connect-on-established-accepted", format!("{what}: {}", evs_short(evs)));
                        return;
                    }
                    self.m_after_error(evs);
                } else if pkt.level != 0 {
                    if accepted || !errored {
                        self.flag(&["C17"], "unsupported-level-accepted", format!("{what}: {}", evs_short(evs)));
                        return;
                    }
                    self.m_after_error(evs);
                } else {
                    if !accepted {
                        self.flag(&["C17", "C05"], "valid-connect-rejected", format!("{what}: {}", evs_short(evs)));
                        return;
                    }
                    if self.m.ver == 0 {
                        self.m.ver = pkt.v;
                        self.stats.hit("c17_version_detected");
                    }
                    if self.ep.version() != pkt.v {
                        self.flag(&["C17"], "version-not-adopted", format!("{what}: get_protocol_version() = {}", self.ep.version()));
                        return;
                    }
                    self.m.st = St::Connecting;
                    self.m.is_client = false;
                    self.m.new_connection();
                    self.m.ka_ms = 0;
                    self.m.srv_to_ms = pkt.keep_alive as u64 * 1500;
                    self.m.persistent = if pkt.v == 4 { !pkt.clean } else { pkt.prop_sei().unwrap_or(0) != 0 };
                    if pkt.clean {
                        self.m.new_session();
                        ctx.session_reset = true;
                    }
                    if pkt.v == 5 {
                        self.m.rm_send = pkt.prop_rm();
                        self.m.mps_send = pkt.prop_mps();
                        self.m.tam_send = pkt.prop_tam().unwrap_or(0);
                    }
                    self.m.connect = Some(pkt.clone());
                }
            }
            CONNACK => {
                if st_before == St::Connected {
                    self.stats.hit("c17_connack_on_established");
                    if accepted || !errored {
                        self.flag(&["C17", "C06"], "connack-on-established-accepted", format!("{what}: a CONNACK on an established connection must be a protocol error: {}", evs_short(evs)));
                        return;
                    }
                    self.m_after_error(evs);
                } else if st_before == St::Connecting && self.m.is_client {
                    if !accepted {
                        self.flag(&["C05"], "valid-connack-rejected", format!("{what}: {}", evs_short(evs)));
                        return;
                    }
                    if pkt.rc_or0() == 0 {
                        self.m.st = St::Connected;
                        if pkt.v == 5 {
                            self.m.rm_send = pkt.prop_rm();
                            self.m.mps_send = pkt.prop_mps();
                            self.m.tam_send = pkt.prop_tam().unwrap_or(0);
                            self.m.ska_ms = pkt.prop_ska().map(|s| s as u64 * 1000);
                            if let Some(sei) = pkt.prop_sei() {
                                self.m.persistent = sei != 0;
                                if sei == 0 {
                                    self.m.new_session();
                                    ctx.session_reset = true;
                                }
                            }
                        }
                        if pkt.sp {
                            self.resume(evs, &mut ctx, 0);
                        } else {
                            self.m.new_session();
                            ctx.session_reset = true;
                            if !sends.is_empty() {
                                self.flag(&["C06"], "retransmission-without-session", format!("{what}: {}", evs_short(evs)));
                                return;
                            }
                        }
                    }
                } else {
                    // unsolicited CONNACK while disconnected: outside every statement; follow the library
                    self.lenient_resync();
                }
            }
            PUBLISH => {
                if !self.on_frame_publish(&pkt, evs, st_before, &what, &mut accepted) {
                    return;
                }
            }
            PUBACK | PUBREC | PUBCOMP => {
                if !self.on_frame_ack(&pkt, evs, &what, &mut ctx, accepted, errored) {
                    return;
                }
            }
            PUBREL => {
                if let Some(id) = pkt.id {
                    if id != 0 && accepted {
                        self.m.inq2.remove(&id);
                    }
                }
            }
            SUBACK | UNSUBACK => {
                let id = pkt.id.unwrap_or(0);
                let set = if kind == SUBACK { &mut self.m.subs } else { &mut self.m.unsubs };
                if set.remove(&id) {
                    if !accepted {
                        self.flag(&["C08", "C05"], "matching-suback-rejected", format!("{what}: {}", evs_short(evs)));
                        return;
                    }
                    ctx.owed.insert(id);
                    self.stats.hit("c08_suback_release");
                    self.stats.round_trips += 1;
                } else if accepted || !errored {
                    self.flag(&["C08"], "unmatched-suback-accepted", format!("{what}: no SUBSCRIBE/UNSUBSCRIBE with id {id} is pending: {}", evs_short(evs)));
                    return;
                }
            }
            _ => {}
        }
        if self.failed() {
            return;
        }
        if errored && !accepted {
            self.m_after_error(evs);
        }
        self.track_lib_sends(evs, None);
        self.c15_rules(evs, if accepted { Some(kind) } else { None }, &what);
        if kind == DISCONNECT && accepted {
            self.stats.hit("disconnect_received");
        }
        self.common(evs, ctx);
        if kind == DISCONNECT && accepted && !self.failed() && self.m.armed.iter().any(|a| *a) {
            self.flag(&["C15"], "armed-after-disconnect-received", format!("{what}: timers still armed {:?}", self.m.armed));
        }
    }

    /// after an error list: a v5 endpoint that was connected sends DISCONNECT (tracked by
    /// track_lib_sends); nothing else changes in the model
    fn m_after_error(&mut self, _evs: &[Ev]) {
        self.stats.hit("error_reported");
    }

    fn on_frame_publish(&mut self, pkt: &Pkt, evs: &[Ev], st_before: St, what: &str, accepted: &mut bool) -> bool {
        use wire::*;
        let delivered: Vec<&Pkt> = evs.iter().filter_map(|e| if let Ev::Recv { pkt } = e { Some(pkt) } else { None }).collect();
        let errored = evs.iter().any(|e| e.is_error());
        let sends: Vec<&Pkt> = evs.iter().filter_map(|e| if let Ev::Send { pkt, .. } = e { Some(pkt) } else { None }).collect();
        let connected = st_before == St::Connected;
        // structural validity (what the builders enforce)
        let invalid = (pkt.qos > 0 && pkt.id == Some(0)) || pkt.qos == 3 || (pkt.qos == 0 && pkt.dup);
        if invalid {
            return true;
        }
        // inbound Receive Maximum (v5)
        if pkt.v == 5 && pkt.qos > 0 {
            let id = pkt.id.unwrap();
            if let Some(mx) = self.m.rm_recv {
                if self.m.in_unans.contains(&id) {
                    // the peer re-uses an id that is still unanswered on this connection:
                    // a protocol violation of the peer; delivery and rejection are both fine
                    if delivered.is_empty() && errored {
                        return true;
                    }
                } else {
                    if self.m.in_unans.len() >= mx as usize {
                        self.stats.hit("c12_inbound_exceeded");
                        let disc = sends.iter().any(|p| p.kind == DISCONNECT && p.rc == Some(0x93));
                        if !delivered.is_empty() || !errored || (connected && !disc) {
                            self.flag(&["C12"], "inbound-receive-maximum-not-enforced", format!("{what}: {} unanswered QoS>0 PUBLISH outstanding, local Receive Maximum {mx}: {}", self.m.in_unans.len(), evs_short(evs)));
                            return false;
                        }
                        return true;
                    } else if sends.iter().any(|p| p.kind == DISCONNECT && p.rc == Some(0x93)) {
                        self.flag(&["C12"], "inbound-receive-maximum-too-strict", format!("{what}: only {} unanswered, local Receive Maximum {mx}: {}", self.m.in_unans.len(), evs_short(evs)));
                        return false;
                    }
                }
            }
        }
        // topic alias (v5)
        let mut topic = pkt.topic.clone();
        if pkt.v == 5 {
            if let Some(a) = pkt.alias() {
                let in_range = a >= 1 && a <= self.m.tam_recv;
                let bound = self.m.local_alias.get(&a).cloned();
                let resolvable = in_range && (!pkt.topic.is_empty() || bound.is_some());
                if !resolvable {
                    self.stats.hit("c13_invalid_alias_received");
                    if !delivered.is_empty() || !evs.iter().any(|e| e.err_code() == Some(E_TA_INVALID)) {
                        self.flag(&["C13"], "invalid-alias-not-rejected", format!("{what}: alias {a} (local Topic Alias Maximum {}, bound {:?}) must be rejected as Topic Alias invalid: {}", self.m.tam_recv, bound, evs_short(evs)));
                        return false;
                    }
                    // D10: the rejected message must not count as handled
                    return true;
                }
                if pkt.topic.is_empty() {
                    topic = bound.unwrap();
                    self.stats.hit("c13_alias_resolved_on_receive");
                } else {
                    self.m.local_alias.insert(a, pkt.topic.clone());
                }
            } else if pkt.topic.is_empty() {
                if !delivered.is_empty() || !errored {
                    self.flag(&["C13"], "empty-topic-without-alias-accepted", format!("{what}: {}", evs_short(evs)));
                    return false;
                }
                return true;
            }
        }
        if pkt.v == 5 && pkt.qos > 0 {
            self.m.in_unans.insert(pkt.id.unwrap());
        }
        // QoS 2 exactly once
        let mut expect_delivery = true;
        if pkt.qos == 2 {
            let id = pkt.id.unwrap();
            if self.m.inq2.contains(&id) {
                expect_delivery = false;
                self.stats.hit("qos2_dup_suppressed");
                if !delivered.is_empty() {
                    self.flag(&["C07"], "qos2-duplicate-delivered", format!("{what}: id {id} was already notified and no PUBREL has been received since: {}", evs_short(evs)));
                    return false;
                }
                if connected && !sends.iter().any(|p| p.kind == PUBREC && p.id == Some(id)) {
                    self.flag(&["C07"], "qos2-duplicate-not-answered", format!("{what}: duplicate must be answered with PUBREC: {}", evs_short(evs)));
                    return false;
                }
            } else {
                self.m.inq2.insert(id);
            }
        }
        if expect_delivery {
            if delivered.is_empty() {
                let props: &[&'static str] = if pkt.qos == 2 { &["C07", "C05"] } else { &["C05"] };
                self.flag(props, format!("valid-publish-not-delivered/q{}", pkt.qos), format!("{what}: {}", evs_short(evs)));
                return false;
            }
            let d = delivered[0];
            if d.topic != topic || d.payload != pkt.payload || d.qos != pkt.qos || d.id != pkt.id {
                let props: &[&'static str] = if d.topic != topic { &["C13", "C01"] } else { &["C01"] };
                self.flag(props, "delivered-publish-differs", format!("{what}: delivered {} but the sender meant topic {:?}", d.short(), topic));
                return false;
            }
            self.stats.hit("publish_delivered");
        }
        *accepted = !delivered.is_empty();
        true
    }

    fn on_frame_ack(&mut self, pkt: &Pkt, evs: &[Ev], what: &str, ctx: &mut Ctx, accepted: bool, errored: bool) -> bool {
        use wire::*;
        let id = pkt.id.unwrap_or(0);
        let want = match pkt.kind {
            PUBACK => Stage::AwaitPuback,
            PUBREC => Stage::AwaitPubrec,
            _ => Stage::AwaitPubcomp,
        };
        let pos = self.m.out.iter().position(|o| o.id == id && o.stage == want && id != 0);
        match pos {
            None => {
                // C06: matches nothing in flight
                self.stats.hit("c06_unmatched_ack");
                if accepted || !errored {
                    self.flag(&["C06"], format!("unmatched-ack-accepted/{}", kind_name(pkt.kind)), format!("{what}: nothing in flight awaits it (in flight {:?}): {}", self.m.out.iter().map(|o| (o.id, o.stage)).collect::<Vec<_>>(), evs_short(evs)));
                    return false;
                }
                if evs.iter().any(|e| matches!(e, Ev::Released(_))) {
                    self.flag(&["C06", "C08"], "unmatched-ack-frees-id", format!("{what}: {}", evs_short(evs)));
                    return false;
                }
                true
            }
            Some(i) => {
                if !accepted {
                    // an acknowledgement that would have completed the exchange also owed the
                    // release of its id (C08)
                    let completes = pkt.kind == PUBACK || pkt.kind == PUBCOMP || (pkt.kind == PUBREC && pkt.rc_or0() >= 0x80);
                    let props: &[&'static str] = if completes { &["C06", "C16", "C08"] } else { &["C06", "C16"] };
                    self.flag(props, format!("matching-ack-rejected/{}", kind_name(pkt.kind)), format!("{what}: the acknowledgement matches an exchange in flight but was not accepted: {}", evs_short(evs)));
                    return false;
                }
                self.stats.round_trips += 1;
                match pkt.kind {
                    PUBACK | PUBCOMP => {
                        self.m.out.remove(i);
                        self.m.store.retain(|s| s.id != id);
                        ctx.owed.insert(id);
                        self.stats.hit(if pkt.kind == PUBACK { "qos1_completed" } else { "qos2_completed" });
                    }
                    _ => {
                        // PUBREC
                        self.m.store.retain(|s| !(s.id == id && !s.rel));
                        if pkt.rc_or0() >= 0x80 {
                            self.m.out.remove(i);
                            ctx.owed.insert(id);
                            self.stats.hit("qos2_error_pubrec");
                        } else {
                            self.m.out[i].stage = Stage::GotPubrec;
                            // automatic PUBREL is tracked from the Send event
                        }
                    }
                }
                true
            }
        }
    }
}
