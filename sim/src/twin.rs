//! Twin driver: two (or more) connection objects driven in lock-step by one schedule with
//! one deliberate difference; the oracle is equality of the canonical event traces (and of
//! the state digests where the property speaks of state).
//!   C09  reference feeding (one frame per buffer) vs any partition of the same byte stream
//!   C16  crashed + restored object vs the object that merely lost its transport, at every prefix
//!   C10  reused object starting a new session vs a fresh object
//!   C17  version-undetermined server vs fixed-version server

use crate::ep::*;
use crate::model::*;
use crate::rng::Rng;
use crate::solo::{self, Cfg, GenProfile, Op, Solo};
use serde::{Deserialize, Serialize};

pub type Trace = Vec<(String, Vec<Ev>)>;

fn first_diff(a: &Trace, b: &Trace) -> Option<(usize, String)> {
    for i in 0..a.len().max(b.len()) {
        match (a.get(i), b.get(i)) {
            (Some(x), Some(y)) if x == y => {}
            (x, y) => {
                let f = |t: Option<&(String, Vec<Ev>)>| t.map(|(w, e)| format!("{w} -> {}", evs_short(e))).unwrap_or_else(|| "<nothing>".into());
                return Some((i, format!("call {i}: [{}] vs [{}]", f(x), f(y))));
            }
        }
    }
    None
}

fn kind_of_what(w: &str) -> String {
    w.split(|c| c == '(' || c == '[' || c == ' ').next().unwrap_or("").to_string()
}

// ------------------------------------------------------------------ C09

/// Re-execute a recorded call script on a fresh object; burst `burst_ix` (a maximal run of
/// consecutive Feed calls) is concatenated and delivered cut at `cuts` instead.
pub fn replay_calls(cfg: &Cfg, calls: &[WCall], burst_ix: usize, cuts: &[usize]) -> Watch {
    let mut w = Watch::new("B", cfg.role, cfg.ver, cfg.pid32, cfg.opts());
    w.vectored = cfg.vectored;
    w.trace = Some(vec![]);
    w.read_past_close = true;
    let mut i = 0;
    let mut b = 0usize;
    while i < calls.len() && !w.failed() {
        match &calls[i] {
            WCall::Feed(_) => {
                let mut j = i;
                let mut bytes = vec![];
                while j < calls.len() {
                    if let WCall::Feed(x) = &calls[j] {
                        bytes.extend_from_slice(x);
                        j += 1;
                    } else {
                        break;
                    }
                }
                if b == burst_ix {
                    let mut last = 0;
                    let mut cs: Vec<usize> = cuts.iter().cloned().filter(|c| *c > 0 && *c < bytes.len()).collect();
                    cs.sort_unstable();
                    cs.dedup();
                    cs.push(bytes.len());
                    for c in cs {
                        w.feed(&bytes[last..c]);
                        last = c;
                        if w.failed() {
                            break;
                        }
                    }
                } else {
                    for k in i..j {
                        if let WCall::Feed(x) = &calls[k] {
                            w.feed(x);
                        }
                    }
                }
                b += 1;
                i = j;
                continue;
            }
            WCall::Send(p) => {
                w.send(p);
            }
            WCall::Timer(k) => {
                w.timer(*k);
            }
            WCall::Closed => {
                w.closed();
            }
            WCall::Acquire => {
                w.acquire();
            }
            WCall::Register(id) => {
                w.register(*id);
            }
            WCall::Release(id) => {
                w.release(*id);
            }
            WCall::Erase(id) => {
                w.erase(*id);
            }
            WCall::SetPing(ms) => {
                w.set_ping(*ms);
            }
            WCall::SetPingresp(ms) => {
                w.set_pingresp(*ms);
            }
            WCall::SetAuto(which, on) => {
                w.set_auto(*which, *on);
            }
            WCall::Crash(m) => {
                w.crash_restore(*m);
            }
            WCall::Lenient => {
                w.set_lenient();
            }
            WCall::WriteFailed => {
                w.write_failed();
            }
        }
        i += 1;
    }
    w
}

pub fn bursts(calls: &[WCall]) -> Vec<usize> {
    let mut out = vec![];
    let mut i = 0;
    while i < calls.len() {
        if let WCall::Feed(_) = &calls[i] {
            let mut n = 0;
            while i < calls.len() {
                if let WCall::Feed(x) = &calls[i] {
                    n += x.len();
                    i += 1;
                } else {
                    break;
                }
            }
            out.push(n);
        } else {
            i += 1;
        }
    }
    out
}

/// reference run A: one frame per buffer, calls and trace recorded
pub fn run_reference(cfg: &Cfg, ops: &[Op]) -> Solo {
    let mut s = Solo::new(cfg.clone());
    s.w.trace = Some(vec![]);
    s.w.calls = Some(vec![]);
    s.w.read_past_close = true;
    for op in ops {
        s.exec(op);
        if s.w.failed() {
            break;
        }
    }
    s
}

/// compare B (partitioned) against the reference; None = agree
pub fn chunk_compare(cfg: &Cfg, a: &Solo, burst_ix: usize, cuts: &[usize]) -> Option<Violation> {
    let calls = a.w.calls.as_ref().unwrap();
    let b = replay_calls(cfg, calls, burst_ix, cuts);
    if let Some(v) = &b.viol {
        // the reference run passed: whatever B trips over is caused by the chunking
        let mut v = v.clone();
        if !v.props.contains(&"C09") {
            v.props.push("C09");
        }
        v.class = format!("chunked/{}", v.class);
        v.msg = format!("partition {:?} of burst {burst_ix}: {}", cuts, v.msg);
        return Some(v);
    }
    let ta = a.w.trace.as_ref().unwrap();
    let tb = b.trace.as_ref().unwrap();
    if let Some((i, d)) = first_diff(ta, tb) {
        let k = ta.get(i).or(tb.get(i)).map(|x| kind_of_what(&x.0)).unwrap_or_default();
        return Some(Violation { props: vec!["C09"], class: format!("chunking-changes-events/{k}"), msg: format!("burst {burst_ix} cut at {:?}: {d}", cuts), step: i });
    }
    None
}

// ------------------------------------------------------------------ fork comparisons (C16, C10, C17)

#[derive(Clone, Copy, Debug, Serialize, Deserialize, PartialEq, Eq)]
pub enum ForkKind {
    /// C16: prefix, then {lose transport + forget | crash + restore}, then the same continuation
    Crash,
    /// C10: {history + close | nothing}, then a script that starts a new session
    Fresh,
    /// C17: the same script on an undetermined server and on a fixed-version server
    Version,
}

pub struct ForkResult {
    pub viol: Option<Violation>,
    pub a: Solo,
    pub b: Solo,
}

fn run_ops(s: &mut Solo, ops: &[Op]) {
    for op in ops {
        if s.w.failed() {
            break;
        }
        s.exec(op);
    }
}

fn state_diff(a: &Solo, b: &Solo) -> Option<String> {
    let x = a.w.ep.state();
    let y = b.w.ep.state();
    if x == y {
        return None;
    }
    let fx = format!("{:?}", x);
    let fy = format!("{:?}", y);
    // name the first differing field
    let px: Vec<&str> = fx.split(", ").collect();
    let py: Vec<&str> = fy.split(", ").collect();
    for (p, q) in px.iter().zip(py.iter()) {
        if p != q {
            return Some(format!("{p}  vs  {q}"));
        }
    }
    Some("state digests differ".into())
}

/// Runs both branches; `head_a`/`head_b` run before tracing starts, `cont` is traced.
pub fn fork(kind: ForkKind, cfg_a: &Cfg, cfg_b: &Cfg, head_a: &[Op], head_b: &[Op], cont: &[Op], mangle: ExportMangle) -> ForkResult {
    let mut a = Solo::new(cfg_a.clone());
    let mut b = Solo::new(cfg_b.clone());
    let mut late: Option<crate::model::Durable> = None;
    run_ops(&mut a, head_a);
    run_ops(&mut b, head_b);
    if kind == ForkKind::Crash && !b.w.failed() {
        // b: the process dies; only the export survives
        if b.w.m.st != St::Disc || b.w.want_close {
            b.exec(&Op::Close { partial: 0 });
        }
        if mangle == ExportMangle::LateRestore && !b.acting_client {
            late = b.w.crash_take();
        } else {
            b.w.crash_restore(mangle);
        }
        b.owned.clear();
        b.inbox.clear();
    }
    if kind == ForkKind::Version && !head_a.is_empty() {
        for x in [&mut a, &mut b] {
            if x.w.failed() {
                continue;
            }
            if x.w.m.st != St::Disc || x.w.want_close {
                x.exec(&Op::Close { partial: 0 });
            }
            x.w.crash_restore(ExportMangle::None);
            x.owned.clear();
            x.inbox.clear();
        }
    }
    let prop: &'static str = match kind {
        ForkKind::Crash => "C16",
        ForkKind::Fresh => "C10",
        ForkKind::Version => "C17",
    };
    // a violation while building the heads is not this comparison's business (other checks own it)
    if a.w.failed() || b.w.failed() {
        let v = a.w.viol.clone().or(b.w.viol.clone());
        return ForkResult { viol: v, a, b };
    }
    if kind == ForkKind::Crash && (a.w.lenient || b.w.lenient) {
        return ForkResult { viol: None, a, b };
    }
    if kind == ForkKind::Fresh {
        // configuration scope: carry the user's ping override over to the fresh object
        if let Some(ms) = a.w.m.user_ms {
            b.exec(&Op::SetPing { ms: Some(ms) });
        }
        if a.w.opts.pingresp_to_ms != b.w.opts.pingresp_to_ms {
            b.exec(&Op::SetPingresp { ms: a.w.opts.pingresp_to_ms });
        }
        for (which, x, y) in [(0u8, a.w.opts.auto_pub, b.w.opts.auto_pub), (1, a.w.opts.auto_ping, b.w.opts.auto_ping), (2, a.w.opts.auto_map, b.w.opts.auto_map), (3, a.w.opts.auto_replace, b.w.opts.auto_replace)] {
            if x != y {
                b.exec(&Op::SetAuto { which, on: x });
            }
        }
        b.now_ms = a.now_ms;
        b.alt = a.alt;
        b.acting_client = a.acting_client;
    }
    if kind == ForkKind::Crash {
        b.now_ms = a.now_ms;
        b.tag = a.tag;
        b.peer_q2 = a.peer_q2.clone();
        b.peer_next_id = a.peer_next_id;
        b.last_ack = a.last_ack.clone();
    }
    if kind == ForkKind::Fresh {
        b.tag = a.tag;
        b.peer_next_id = a.peer_next_id;
    }
    // harness-side pending state of the heads does not reach into the continuation
    a.coalesce = None;
    b.coalesce = None;
    a.w.trace = Some(vec![]);
    b.w.trace = Some(vec![]);
    let hs = cont.iter().take_while(|o| matches!(o, Op::SetAlt { .. } | Op::SwapSide)).count() + 2;
    for (i, op) in cont.iter().enumerate() {
        a.exec(op);
        b.exec(op);
        if a.w.failed() || b.w.failed() {
            break;
        }
        if matches!(op, Op::Connect { .. }) {
            // the broker now knows whose session this is
            if let Some(d) = late.take() {
                b.w.restore_durable(&d);
                if b.w.failed() {
                    break;
                }
            }
        }
        // (only once the new connection has started: what the query answers while no connection
        // exists is not pinned)
        if kind == ForkKind::Fresh && a.w.m.st != St::Disc && b.w.m.st != St::Disc && a.w.ep.vacancy() != b.w.ep.vacancy() {
            let v = Violation { props: vec!["C10", "C12"], class: "reused-object-differs-from-fresh/vacancy".into(), msg: format!("after step {i} of the new connection ({:?}): vacancy {:?} on the reused object, {:?} on a fresh one", op, a.w.ep.vacancy(), b.w.ep.vacancy()), step: i };
            return ForkResult { viol: Some(v), a, b };
        }
        if kind == ForkKind::Fresh && i + 1 == hs && a.w.m.st != St::Connected && b.w.m.st != St::Connected {
            // no new session came into being on either object (e.g. both refuse the handshake
            // for a reason the model agrees with): nothing to compare
            return ForkResult { viol: None, a, b };
        }
    }
    let ta = a.w.trace.clone().unwrap();
    let tb = b.w.trace.clone().unwrap();
    let mut viol = None;
    if a.w.failed() || b.w.failed() {
        // one branch tripped a per-endpoint monitor: that is the finding, under its own properties;
        // a monitor tripped by the restored object during the continuation is C16's business too
        // ("continues like the original would have", "duplicates ... are still suppressed")
        viol = a.w.viol.clone().or(b.w.viol.clone());
        if kind == ForkKind::Crash && b.w.failed() {
            let mut v = b.w.viol.clone().unwrap();
            if !v.props.is_empty() && !v.props.contains(&"C16") {
                v.props.push("C16");
            }
            viol = Some(v);
        }
        if kind == ForkKind::Fresh && a.w.failed() && !b.w.failed() && !a.w.lenient {
            // the reused object trips a monitor the fresh one does not
            let mut v = a.w.viol.clone().unwrap();
            if !v.props.is_empty() && !v.props.contains(&"C10") {
                v.props.push("C10");
            }
            viol = Some(v);
        }
        if kind == ForkKind::Version && a.w.failed() != b.w.failed() {
            let mut v = viol.clone().unwrap();
            if !v.props.is_empty() && !v.props.contains(&"C17") {
                v.props.push("C17");
            }
            viol = Some(v);
        }
        return ForkResult { viol, a, b };
    }
    if let Some((i, d)) = first_diff(&ta, &tb) {
        let k = ta.get(i).or(tb.get(i)).map(|x| kind_of_what(&x.0)).unwrap_or_default();
        let label = match kind {
            ForkKind::Crash => "restored-object-continues-differently",
            ForkKind::Fresh => "reused-object-differs-from-fresh",
            ForkKind::Version => "undetermined-server-differs-from-fixed",
        };
        viol = Some(Violation { props: vec![prop], class: format!("{label}/{k}"), msg: d, step: i });
    } else if a.w.failed() || b.w.failed() {
        // identical traces but one branch tripped a monitor: report it under its own properties
        viol = a.w.viol.clone().or(b.w.viol.clone());
    } else if let Some(d) = state_diff(&a, &b) {
        let label = match kind {
            ForkKind::Crash => "restored-state-differs",
            ForkKind::Fresh => "reused-state-differs-from-fresh",
            ForkKind::Version => "undetermined-state-differs-from-fixed",
        };
        let field = d.split(':').next().unwrap_or("").trim().trim_start_matches("VerifState { ").to_string();
        viol = Some(Violation { props: vec![prop], class: format!("{label}/{field}"), msg: d, step: ta.len() });
    }
    if kind == ForkKind::Version && viol.is_none() && a.w.ep.version() != b.w.ep.version() {
        viol = Some(Violation { props: vec!["C17"], class: "detected-version-differs".into(), msg: format!("{} vs {}", a.w.ep.version(), b.w.ep.version()), step: 0 });
    }
    ForkResult { viol, a, b }
}

/// A continuation / script drawn adaptively against world `s` (which is advanced).
pub fn gen_script(s: &mut Solo, r: &mut Rng, prof: &GenProfile, len: u64, first: &[Op]) -> Vec<Op> {
    let mut ops = vec![];
    for op in first {
        ops.push(op.clone());
        s.exec(op);
    }
    for _ in 0..len {
        if s.w.failed() {
            break;
        }
        let op = solo::gen_op(s, r, prof);
        // no second crash / forget inside a continuation
        if matches!(op, Op::Crash) {
            continue;
        }
        ops.push(op.clone());
        s.exec(&op);
    }
    ops
}
