//! Finite matrices of C11 (send gating) and C17 (receive gating): every cell is a state
//! reached by a real handshake history; the deciding oracle is the spec gate table in the
//! reference model (`expect_send`, `role_may_recv`) plus the "as if the call had not been
//! made" digest comparison through the hook. The compile-time clause of C11 is decided by a
//! trait-implementation probe compared with the run-time outcome.

use crate::ep::*;
use crate::model::*;
use crate::solo::{Cfg, Op, Solo};
use crate::wire::{self, Pkt, Prop};
use mqtt_protocol_core::mqtt;
use mqtt_protocol_core::mqtt::connection::role as lrole;
use mqtt_protocol_core::mqtt::connection::Sendable;
use std::marker::PhantomData;

#[derive(Clone, Copy, Debug, PartialEq, Eq)]
pub enum Flag {
    None,
    Persistent,
    Offline,
}

#[derive(Clone, Debug)]
pub struct Cell {
    pub role: Role,
    pub as_client: bool,
    pub ver: Ver,
    pub wire_v: u8,
    pub status: St,
    pub flag: Flag,
    /// index into the representative packets (C11) / type nibble (C17)
    pub k: usize,
}

fn cell_cfg(c: &Cell) -> Cfg {
    let mut cfg = Cfg::basic(c.role, c.ver, c.as_client);
    cfg.wire_v = c.wire_v;
    // half of the cells run with keep-alive on: a rejected packet must not count as activity
    cfg.ka = if c.flag == Flag::Persistent { 10 } else { 0 };
    // with automatic responses on, "acted upon" is visible in the event list
    if c.role == Role::Any {
        cfg.auto_ping = true;
    }
    match c.flag {
        Flag::Persistent => {
            if c.wire_v == 5 {
                cfg.sei = Some(100);
            }
        }
        Flag::Offline => cfg.offline = true,
        Flag::None => {
            if c.wire_v == 5 {
                cfg.sei = Some(0);
            }
        }
    }
    cfg
}

/// Reach the cell's status by a real handshake history.
fn reach(c: &Cell) -> Solo {
    let cfg = cell_cfg(c);
    let mut s = Solo::new(cfg);
    let clean = c.flag != Flag::Persistent;
    // a client object created with an undetermined version can never connect
    let undet_client = c.ver == Ver::Undet && c.as_client;
    // session state that a wrongly processed packet could disturb: an inbound QoS 2 message
    // that was notified (handled id 1, unanswered) and an outbound QoS 1 message in flight
    let prime = |s: &mut Solo| {
        s.exec(&Op::PeerPub { qos: 2, id: 1, dup: false, topic: 0, alias: 0, pad: 0 });
        s.exec(&Op::Pub { qos: 1, topic: 0, alias: 0, pad: 0, fail: false });
    };
    match c.status {
        St::Disc => {
            if c.flag == Flag::Persistent && !undet_client {
                // a persistent session exists only after a connection
                s.exec(&Op::Connect { clean: false });
                s.exec(&Op::Connack { sp: false, rc: 0 });
                prime(&mut s);
                s.exec(&Op::Close { partial: 0 });
            }
        }
        St::Connecting => {
            if c.flag == Flag::Persistent && !undet_client {
                s.exec(&Op::Connect { clean: false });
                s.exec(&Op::Connack { sp: false, rc: 0 });
                prime(&mut s);
                s.exec(&Op::Close { partial: 0 });
            }
            s.exec(&Op::Connect { clean });
        }
        St::Connected => {
            s.exec(&Op::Connect { clean });
            s.exec(&Op::Connack { sp: false, rc: 0 });
            prime(&mut s);
        }
    }
    s
}

/// 33 representative packets: 14 kinds of v3.1.1 and 15 of v5.0, PUBLISH in all three QoS.
pub fn rep_packets() -> Vec<Pkt> {
    use wire::*;
    let mut v = vec![];
    for pv in [4u8, 5] {
        for kind in 1..=15u8 {
            if kind == AUTH && pv == 4 {
                continue;
            }
            let mut p = Pkt::new(pv, kind);
            match kind {
                CONNECT => {
                    p.client_id = "cid".into();
                    p.clean = true;
                    if pv == 5 {
                        // a second variant that announces limits: a refused CONNECT must not adopt them
                        v.push(p.clone());
                        p.clean = false;
                        p.keep_alive = 77;
                        p.props = vec![Prop::SessionExpiry(7), Prop::ReceiveMax(9), Prop::MaxPacketSize(1000), Prop::TopicAliasMax(9)];
                    }
                }
                CONNACK => p.rc = Some(0),
                PUBLISH => {
                    for q in 0..3u8 {
                        let mut x = p.clone();
                        x.qos = q;
                        x.topic = "t0".into();
                        x.payload = b"m".to_vec();
                        v.push(x);
                    }
                    continue;
                }
                PUBACK | PUBREC if pv == 5 => {
                    // plain and with a failure reason code
                    v.push(p.clone());
                    p.rc = Some(0x80);
                }
                SUBSCRIBE => p.filters = vec![("a".into(), 0)],
                UNSUBSCRIBE => p.filters = vec![("a".into(), 0)],
                SUBACK => p.rcs = vec![0],
                UNSUBACK => {
                    if pv == 5 {
                        p.rcs = vec![0]
                    }
                }
                _ => {}
            }
            v.push(p);
        }
    }
    v
}

fn needs_fresh_id(p: &Pkt) -> bool {
    use wire::*;
    (p.kind == PUBLISH && p.qos > 0) || matches!(p.kind, PUBREL | SUBSCRIBE | UNSUBSCRIBE)
}

pub fn c11_cells() -> Vec<Cell> {
    let mut out = vec![];
    let reps = rep_packets().len();
    for (role, acts) in [(Role::Client, vec![true]), (Role::Server, vec![false]), (Role::Any, vec![true, false])] {
        for as_client in acts {
            for (ver, wire_v) in [(Ver::V4, 4u8), (Ver::V5, 5), (Ver::Undet, 4), (Ver::Undet, 5)] {
                for status in [St::Disc, St::Connecting, St::Connected] {
                    // an undetermined client never leaves the disconnected state
                    if ver == Ver::Undet && as_client && status != St::Disc {
                        continue;
                    }
                    for flag in [Flag::None, Flag::Persistent, Flag::Offline] {
                        for k in 0..reps {
                            out.push(Cell { role, as_client, ver, wire_v, status, flag, k });
                        }
                    }
                }
            }
        }
    }
    out
}

pub fn c17_cells() -> Vec<Cell> {
    let mut out = vec![];
    for (role, acts) in [(Role::Client, vec![true]), (Role::Server, vec![false]), (Role::Any, vec![true, false])] {
        for as_client in acts {
            for (ver, wire_v) in [(Ver::V4, 4u8), (Ver::V5, 5), (Ver::Undet, 4), (Ver::Undet, 5)] {
                if ver == Ver::Undet && as_client {
                    continue;
                }
                for status in [St::Disc, St::Connecting, St::Connected] {
                    for flag in [Flag::None, Flag::Persistent] {
                        for k in 0..16 {
                            out.push(Cell { role, as_client, ver, wire_v, status, flag, k });
                        }
                        // CONNECT with unsupported protocol levels, CONNACK with a failure code
                        for k in [16usize, 17, 18, 19] {
                            out.push(Cell { role, as_client, ver, wire_v, status, flag, k });
                        }
                        // kinds this role may never receive, with a non-canonical flag nibble
                        for nib in 1..16usize {
                            if !role_may_recv(role, wire_v, nib as u8) {
                                out.push(Cell { role, as_client, ver, wire_v, status, flag, k: 32 + nib });
                            }
                        }
                    }
                }
            }
        }
    }
    out
}

pub struct CellResult {
    pub desc: String,
    pub viol: Option<Violation>,
    pub log: Vec<String>,
    pub refused: bool,
    pub steps: u64,
    pub stats: Stats,
}

fn session_digest(s: &mqtt::connection::core::verif::VerifState) -> String {
    format!("{:?}|{:?}|{:?}|{:?}|{:?}|{:?}|{:?}|{:?}", s.pid_free, s.pid_suback, s.pid_unsuback, s.pid_puback, s.pid_pubrec, s.pid_pubcomp, s.store, s.qos2_publish_handled)
}

pub fn run_c11_cell(c: &Cell) -> CellResult {
    let mut s = reach(c);
    let reps = rep_packets();
    let mut p = reps[c.k].clone();
    let desc = format!("role={:?} acting={} ver={:?} wire=v{} status={:?} flag={:?} packet={}v{}{}", c.role, if c.as_client { "client" } else { "server" }, c.ver, c.wire_v, c.status, c.flag, wire::kind_name(p.kind), p.v, if p.kind == wire::PUBLISH { format!(" q{}", p.qos) } else { String::new() });
    if s.w.failed() {
        return CellResult { desc, viol: s.w.viol.clone(), log: s.w.log.clone(), refused: false, steps: s.w.step as u64, stats: s.w.stats.clone() };
    }
    if s.w.m.st != c.status {
        // e.g. undetermined server: the status is reachable, the version is then determined
        return CellResult { desc: format!("{desc} (status not reached)"), viol: None, log: vec![], refused: false, steps: 0, stats: Stats::default() };
    }
    if needs_fresh_id(&p) {
        match s.w.acquire() {
            Some(i) => p.id = Some(i),
            None => return CellResult { desc, viol: s.w.viol.clone(), log: s.w.log.clone(), refused: false, steps: 0, stats: Stats::default() },
        }
    } else if matches!(p.kind, wire::PUBACK | wire::PUBREC | wire::PUBCOMP | wire::SUBACK | wire::UNSUBACK) {
        p.id = Some(1);
    }
    let before = s.w.ep.state();
    let evs = s.w.send(&p);
    let refused = evs.iter().any(|e| e.is_error());
    let mut viol = s.w.viol.clone();
    if viol.is_none() && refused {
        // "the connection behaves afterwards as if the call had not been made"
        let mut after = s.w.ep.state();
        let released = evs.iter().any(|e| matches!(e, Ev::Released(_)));
        let mut b2 = before.clone();
        if released {
            // only the packet's own id may have become free
            after.pid_free = vec![];
            b2.pid_free = vec![];
        }
        if after != b2 {
            let fa = format!("{:?}", after);
            let fb = format!("{:?}", b2);
            let d = fa.split(", ").zip(fb.split(", ")).find(|(x, y)| x != y).map(|(x, y)| format!("{y} -> {x}")).unwrap_or_default();
            viol = Some(Violation { props: vec!["C11"], class: format!("refused-send-leaves-trace/{}", wire::kind_name(p.kind)), msg: format!("{desc}: state changed by a refused send: {d}"), step: s.w.step });
        }
    }
    // compile-time-checked send: same outcome as send() wherever it compiles at all
    if viol.is_none() {
        let mut s2 = reach(c);
        if needs_fresh_id(&p) {
            s2.w.acquire();
        }
        let table = compile_time_table();
        let ri = match c.role {
            Role::Client => 0,
            Role::Server => 1,
            Role::Any => 2,
        };
        let implemented = table.iter().find(|(q, _)| q.v == p.v && q.kind == p.kind).map(|(_, r)| r[ri]).unwrap_or(false);
        match s2.w.ep.checked_send(&p) {
            Ok(Some(evs2)) => {
                s.w.stats.hit("c11_checked_send_compared");
                if !implemented {
                    viol = Some(Violation { props: vec!["C11"], class: "checked-send-probe-disagrees".into(), msg: desc.clone(), step: 0 });
                } else if evs2 != evs {
                    viol = Some(Violation { props: vec!["C11"], class: format!("checked-send-differs-from-send/{}", wire::kind_name(p.kind)), msg: format!("{desc}: checked_send -> {} but send -> {}", evs_short(&evs2), evs_short(&evs)), step: s.w.step });
                }
            }
            Ok(None) => {
                if implemented {
                    viol = Some(Violation { props: vec!["C11"], class: "checked-send-probe-disagrees".into(), msg: desc.clone(), step: 0 });
                } else if !refused {
                    viol = Some(Violation { props: vec!["C11"], class: format!("compile-time-vs-run-time/{}", wire::kind_name(p.kind)), msg: format!("{desc}: checked_send does not compile for this role but send() accepts the packet"), step: 0 });
                }
            }
            Err(e) => {
                viol = Some(Violation { props: vec![], class: "harness/build".into(), msg: e, step: 0 });
            }
        }
    }
    CellResult { desc, viol, log: s.w.log.clone(), refused, steps: s.w.step as u64, stats: s.w.stats.clone() }
}

fn c17_frame(c: &Cell, idw: usize) -> Vec<u8> {
    use wire::*;
    let v = c.wire_v;
    let k = c.k;
    if k == 0 {
        return vec![0x00, 0x00];
    }
    if k == 15 && v == 4 {
        return vec![0xf0, 0x00];
    }
    if k >= 32 {
        // forbidden kind, flag nibble with its lowest bit flipped
        let mut c2 = c.clone();
        c2.k = k - 32;
        let mut b = c17_frame(&c2, idw);
        b[0] ^= 0x01;
        return b;
    }
    let kind = if k == 18 { CONNACK } else if k >= 16 { CONNECT } else { k as u8 };
    let mut p = Pkt::new(v, kind);
    match kind {
        CONNECT => {
            p.client_id = "cid".into();
            p.clean = false;
            if k == 16 {
                p.level = 3;
            }
            if k == 17 {
                p.level = 6;
            }
            if k == 19 {
                // the right level with the top bit set: still not level 4 / 5
                p.level = 0x80 | v;
            }
        }
        CONNACK => p.rc = Some(if k == 18 { if v == 5 { 0x87 } else { 5 } } else { 0 }),
        PUBLISH => {
            p.topic = "t0".into();
            p.payload = b"m".to_vec();
        }
        PUBACK | PUBREC | PUBREL | PUBCOMP => p.id = Some(1),
        SUBSCRIBE | UNSUBSCRIBE => {
            p.id = Some(1);
            p.filters = vec![("a".into(), 0)];
        }
        SUBACK => {
            p.id = Some(1);
            p.rcs = vec![0];
        }
        UNSUBACK => {
            p.id = Some(1);
            if v == 5 {
                p.rcs = vec![0];
            }
        }
        _ => {}
    }
    let _ = Prop::TopicAlias(1);
    encode(&p, idw)
}

pub fn run_c17_cell(c: &Cell) -> CellResult {
    let mut s = reach(c);
    let nib = if c.k >= 32 { c.k - 32 } else if c.k == 18 { 2 } else if c.k >= 16 { 1 } else { c.k };
    let desc = format!("role={:?} acting={} ver={:?} wire=v{} status={:?} flag={:?} frame={}{}", c.role, if c.as_client { "client" } else { "server" }, c.ver, c.wire_v, c.status, c.flag, wire::kind_name(nib as u8), if c.k == 16 { " level 3" } else if c.k == 17 { " level 6" } else if c.k == 19 { " level 0x80|v" } else if c.k == 18 { " failure code" } else if c.k >= 32 { " non-canonical flags" } else { "" });
    if s.w.failed() {
        return CellResult { desc, viol: s.w.viol.clone(), log: s.w.log.clone(), refused: false, steps: s.w.step as u64, stats: s.w.stats.clone() };
    }
    if s.w.m.st != c.status {
        return CellResult { desc: format!("{desc} (status not reached)"), viol: None, log: vec![], refused: false, steps: 0, stats: Stats::default() };
    }
    // something in the session so that "session state untouched" means something
    if c.status == St::Connected && c.flag == Flag::Persistent {
        s.exec(&Op::Pub { qos: 1, topic: 0, alias: 0, pad: 0, fail: false });
    }
    let frame = c17_frame(c, s.w.idw);
    let before = s.w.ep.state();
    let ver_before = s.w.ep.version();
    let lists = s.w.feed(&frame);
    let evs: Vec<Ev> = lists.into_iter().flatten().collect();
    let delivered = evs.iter().any(|e| matches!(e, Ev::Recv { .. }));
    let errored = evs.iter().any(|e| e.is_error());
    let mut viol = s.w.viol.clone();
    let refused = errored && !delivered;
    if viol.is_none() && refused {
        let after = s.w.ep.state();
        if session_digest(&after) != session_digest(&before) {
            viol = Some(Violation { props: vec!["C17"], class: format!("rejected-frame-changes-session/{}", wire::kind_name(nib as u8)), msg: format!("{desc}: session state changed by a rejected frame: {} -> {}", session_digest(&before), session_digest(&after)), step: s.w.step });
        }
        if viol.is_none() && ver_before == 0 && s.w.ep.version() != 0 {
            viol = Some(Violation { props: vec!["C17"], class: "version-adopted-from-rejected-packet".into(), msg: desc.clone(), step: s.w.step });
        }
    }
    CellResult { desc, viol, log: s.w.log.clone(), refused, steps: s.w.step as u64, stats: s.w.stats.clone() }
}

// ------------------------------------------------------------------ compile-time clause of C11

struct Probe<T, R>(PhantomData<(T, R)>);
trait NotImpl {
    const IMPLS: bool = false;
}
impl<T, R> NotImpl for Probe<T, R> {}
impl<T: Sendable<R, u16>, R: lrole::RoleType> Probe<T, R> {
    const IMPLS: bool = true;
}

/// (packet description, [implements Sendable for Client, Server, Any])
pub fn compile_time_table() -> Vec<(Pkt, [bool; 3])> {
    use mqtt::packet::{v3_1_1 as v3, v5_0 as v5};
    macro_rules! row {
        ($t:ty) => {
            [Probe::<$t, lrole::Client>::IMPLS, Probe::<$t, lrole::Server>::IMPLS, Probe::<$t, lrole::Any>::IMPLS]
        };
    }
    use wire::*;
    vec![
        (Pkt::new(4, CONNECT), row!(v3::Connect)),
        (Pkt::new(4, CONNACK), row!(v3::Connack)),
        (Pkt::new(4, PUBLISH), row!(v3::Publish)),
        (Pkt::new(4, PUBACK), row!(v3::Puback)),
        (Pkt::new(4, PUBREC), row!(v3::Pubrec)),
        (Pkt::new(4, PUBREL), row!(v3::Pubrel)),
        (Pkt::new(4, PUBCOMP), row!(v3::Pubcomp)),
        (Pkt::new(4, SUBSCRIBE), row!(v3::Subscribe)),
        (Pkt::new(4, SUBACK), row!(v3::Suback)),
        (Pkt::new(4, UNSUBSCRIBE), row!(v3::Unsubscribe)),
        (Pkt::new(4, UNSUBACK), row!(v3::Unsuback)),
        (Pkt::new(4, PINGREQ), row!(v3::Pingreq)),
        (Pkt::new(4, PINGRESP), row!(v3::Pingresp)),
        (Pkt::new(4, DISCONNECT), row!(v3::Disconnect)),
        (Pkt::new(5, CONNECT), row!(v5::Connect)),
        (Pkt::new(5, CONNACK), row!(v5::Connack)),
        (Pkt::new(5, PUBLISH), row!(v5::Publish)),
        (Pkt::new(5, PUBACK), row!(v5::Puback)),
        (Pkt::new(5, PUBREC), row!(v5::Pubrec)),
        (Pkt::new(5, PUBREL), row!(v5::Pubrel)),
        (Pkt::new(5, PUBCOMP), row!(v5::Pubcomp)),
        (Pkt::new(5, SUBSCRIBE), row!(v5::Subscribe)),
        (Pkt::new(5, SUBACK), row!(v5::Suback)),
        (Pkt::new(5, UNSUBSCRIBE), row!(v5::Unsubscribe)),
        (Pkt::new(5, UNSUBACK), row!(v5::Unsuback)),
        (Pkt::new(5, PINGREQ), row!(v5::Pingreq)),
        (Pkt::new(5, PINGRESP), row!(v5::Pingresp)),
        (Pkt::new(5, DISCONNECT), row!(v5::Disconnect)),
        (Pkt::new(5, AUTH), row!(v5::Auth)),
    ]
}

/// The compile-time-checked send accepts exactly the packet types the run-time check
/// accepts for that role (role gate of `send()` observed on a connection in the state in
/// which the kind is allowed at all).
pub fn check_compile_time() -> Option<Violation> {
    for (p, row) in compile_time_table() {
        for (ri, role) in [Role::Client, Role::Server, Role::Any].iter().enumerate() {
            // spec gate
            let spec = role_may_send(*role, p.v, p.kind);
            if row[ri] != spec {
                return Some(Violation { props: vec!["C11"], class: format!("compile-time-set-differs/{}/{:?}", wire::kind_name(p.kind), role), msg: format!("Sendable<{:?}> for {} v{}: implemented = {}, MQTT allows = {}", role, wire::kind_name(p.kind), p.v, row[ri], spec), step: 0 });
            }
            // run-time gate: a send that the role may never make is refused with an error
            // in every state; one it may make is accepted in the state that allows it
            let as_client = match role {
                Role::Client => true,
                Role::Server => false,
                Role::Any => !matches!(p.kind, wire::CONNACK | wire::SUBACK | wire::UNSUBACK | wire::PINGRESP),
            };
            let status = match p.kind {
                wire::CONNECT => St::Disc,
                wire::CONNACK => St::Connecting,
                _ => St::Connected,
            };
            let reps = rep_packets();
            let k = reps.iter().position(|r| r.v == p.v && r.kind == p.kind && r.rc.is_none() && r.props.is_empty()).or_else(|| reps.iter().position(|r| r.v == p.v && r.kind == p.kind)).unwrap();
            let cell = Cell { role: *role, as_client, ver: if p.v == 4 { Ver::V4 } else { Ver::V5 }, wire_v: p.v, status, flag: Flag::None, k };
            let r = run_c11_cell(&cell);
            if let Some(v) = r.viol {
                return Some(v);
            }
            let runtime_accepts = !r.refused;
            if runtime_accepts != row[ri] {
                return Some(Violation { props: vec!["C11"], class: format!("compile-time-vs-run-time/{}/{:?}", wire::kind_name(p.kind), role), msg: format!("{} v{} for role {:?}: checked_send compiles = {}, send() accepts = {}", wire::kind_name(p.kind), p.v, role, row[ri], runtime_accepts), step: 0 });
            }
        }
    }
    None
}

#[cfg(test)]
mod t {
    #[test]
    fn counts() {
        println!("c11_cells = {} c17_cells = {} reps = {}", super::c11_cells().len(), super::c17_cells().len(), super::rep_packets().len());
    }
}
