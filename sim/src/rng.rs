//! xoshiro256** seeded through splitmix64: the only source of randomness in the harness.
#[derive(Clone)]
pub struct Rng {
    s: [u64; 4],
}
pub fn splitmix(x: &mut u64) -> u64 {
    *x = x.wrapping_add(0x9E3779B97F4A7C15);
    let mut z = *x;
    z = (z ^ (z >> 30)).wrapping_mul(0xBF58476D1CE4E5B9);
    z = (z ^ (z >> 27)).wrapping_mul(0x94D049BB133111EB);
    z ^ (z >> 31)
}
pub fn fnv(s: &str) -> u64 {
    let mut h = 0xcbf29ce484222325u64;
    for b in s.bytes() {
        h ^= b as u64;
        h = h.wrapping_mul(0x100000001b3);
    }
    h
}
impl Rng {
    pub fn new(seed: u64) -> Rng {
        let mut x = seed;
        let mut s = [0u64; 4];
        for v in s.iter_mut() {
            *v = splitmix(&mut x);
        }
        Rng { s }
    }
    /// run `run` of property `prop` under master seed `seed`
    pub fn for_run(seed: u64, prop: &str, run: u64) -> Rng {
        let mut x = seed;
        let a = splitmix(&mut x);
        Rng::new(a ^ fnv(prop) ^ run.wrapping_mul(0xD1B54A32D192ED03))
    }
    pub fn next(&mut self) -> u64 {
        let r = self.s[1].wrapping_mul(5).rotate_left(7).wrapping_mul(9);
        let t = self.s[1] << 17;
        self.s[2] ^= self.s[0];
        self.s[3] ^= self.s[1];
        self.s[1] ^= self.s[2];
        self.s[0] ^= self.s[3];
        self.s[2] ^= t;
        self.s[3] = self.s[3].rotate_left(45);
        r
    }
    /// uniform in 0..n (n > 0)
    pub fn below(&mut self, n: u64) -> u64 {
        self.next() % n
    }
    pub fn range(&mut self, lo: u64, hi: u64) -> u64 {
        lo + self.below(hi - lo + 1)
    }
    pub fn chance(&mut self, num: u64, den: u64) -> bool {
        self.below(den) < num
    }
    pub fn pick<'a, T>(&mut self, v: &'a [T]) -> &'a T {
        &v[self.below(v.len() as u64) as usize]
    }
    /// weighted index
    pub fn weighted(&mut self, w: &[u32]) -> usize {
        let tot: u64 = w.iter().map(|x| *x as u64).sum();
        if tot == 0 {
            return 0;
        }
        let mut r = self.below(tot);
        for (i, x) in w.iter().enumerate() {
            if r < *x as u64 {
                return i;
            }
            r -= *x as u64;
        }
        w.len() - 1
    }
}
