// Call wrappers + protocol model transitions (included into model.rs).

fn opening_kind(p: &Pkt) -> bool {
    (p.kind == wire::PUBLISH && p.qos > 0) || p.kind == wire::SUBSCRIBE || p.kind == wire::UNSUBSCRIBE
}

#[derive(Debug, PartialEq, Eq, Clone, Copy)]
pub enum Expect {
    Accept,
    /// the Receive Maximum bookkeeping is ambiguous (an exchange of an earlier connection is
    /// still open): acceptance and a ReceiveMaximumExceeded refusal are both fine
    EitherRm,
    /// refused; bool = a release of the packet's id is owed (if in use)
    Refuse(bool),
    /// accepted-and-stored or refused are both within the statements
    Either,
}

/// May a connection of role `role` (acting side decided by the CONNECT direction) send `kind`?
pub fn role_may_send(role: Role, v: u8, kind: u8) -> bool {
    use wire::*;
    match kind {
        CONNECT | SUBSCRIBE | UNSUBSCRIBE | PINGREQ => role != Role::Server,
        CONNACK | SUBACK | UNSUBACK | PINGRESP => role != Role::Client,
        DISCONNECT => v == 5 || role != Role::Server,
        AUTH => v == 5,
        PUBLISH | PUBACK | PUBREC | PUBREL | PUBCOMP => true,
        _ => false,
    }
}

/// May a connection of role `role` receive `kind` under version v?
pub fn role_may_recv(role: Role, v: u8, kind: u8) -> bool {
    use wire::*;
    if kind == 0 || (kind == AUTH && v == 4) {
        return false;
    }
    match role {
        Role::Client => !(matches!(kind, CONNECT | SUBSCRIBE | UNSUBSCRIBE | PINGREQ) || (kind == DISCONNECT && v == 4)),
        Role::Server => !matches!(kind, CONNACK | SUBACK | UNSUBACK | PINGRESP),
        Role::Any => true,
    }
}

impl Watch {
    // ------------------------------------------------------------------ send

    pub fn expect_send(&self, p: &Pkt) -> Expect {
        use wire::*;
        let m = &self.m;
        if m.ver == 0 || p.v != m.ver {
            return Expect::Refuse(false);
        }
        if !role_may_send(self.role, p.v, p.kind) {
            return Expect::Refuse(false);
        }
        let connected = m.st == St::Connected;
        let needs_id = (p.kind == PUBLISH && p.qos > 0) || matches!(p.kind, PUBREL | SUBSCRIBE | UNSUBSCRIBE);
        let id_used = p.id.map_or(false, |i| m.ids.contains(&i));
        let mut either = false;
        match p.kind {
            CONNECT => {
                if m.st != St::Disc {
                    return Expect::Refuse(false);
                }
            }
            CONNACK => {
                if m.st != St::Connecting {
                    return Expect::Refuse(false);
                }
            }
            AUTH => {
                if m.st == St::Disc {
                    return Expect::Refuse(false);
                }
            }
            PUBLISH if p.qos > 0 => {
                if !connected {
                    if !id_used {
                        return Expect::Refuse(false);
                    }
                    // between CONNECT and CONNACK the CONNECT just processed has decided the
                    // session kind: a persistent session keeps the publish for after the CONNACK;
                    // with no connection at all either outcome is accepted
                    if !(m.st == St::Connecting && m.persistent) {
                        either = true;
                    }
                }
            }
            PUBREL => {
                if !connected {
                    if !m.persistent && !self.opts.offline {
                        return Expect::Refuse(false);
                    }
                    if !id_used {
                        return Expect::Refuse(false);
                    }
                    either = true;
                }
            }
            _ => {
                if !connected {
                    return Expect::Refuse(opening_kind(p));
                }
            }
        }
        if needs_id && !id_used {
            return Expect::Refuse(false);
        }
        if p.v == 5 {
            if let Some(l) = m.mps_send {
                if wire::encode(p, self.idw).len() > l as usize {
                    return Expect::Refuse(opening_kind(p));
                }
            }
        }
        if p.kind == PUBLISH && p.v == 5 {
            if let Some(a) = p.alias() {
                if a == 0 || a > m.tam_send {
                    return Expect::Refuse(true);
                }
                if p.topic.is_empty() && !m.peer_alias.contains_key(&a) {
                    if !connected && m.app_alias.contains_key(&a) {
                        // bound by a publish that was only queued: it may be resolved and queued
                        // as well (the stored copy carries the full topic), or refused
                        either = true;
                    } else {
                        return Expect::Refuse(true);
                    }
                }
            } else if p.topic.is_empty() {
                return Expect::Refuse(true);
            }
            if p.qos > 0 && !connected && m.st == St::Connecting && m.persistent && !either {
                // a server already knows the peer's Receive Maximum from the CONNECT: the publishes
                // it queues before its own CONNACK are exchanges of this connection and count
                if let Some(mx) = m.rm_send {
                    if m.queued_connecting >= mx as usize {
                        return Expect::Refuse(true);
                    }
                }
            }
            if p.qos > 0 && connected {
                if let Some(mx) = m.rm_send {
                    if m.flow_ambiguous {
                        return Expect::EitherRm;
                    }
                    if m.flow_count() >= mx as usize {
                        return Expect::Refuse(true);
                    }
                }
            }
        }
        if either {
            Expect::Either
        } else {
            Expect::Accept
        }
    }

    pub fn send(&mut self, p: &Pkt) -> Vec<Ev> {
        if self.failed() {
            return vec![];
        }
        if let Some(c) = self.calls.as_mut() {
            c.push(WCall::Send(p.clone()));
        }
        let what = format!("send({})", p.short());
        let st_before = self.m.st;
        let vect = self.vectored;
        let r = self.guarded(&what, &[], |ep| ep.send(p, vect));
        let evs = match r {
            None => return vec![],
            Some(Err(e)) => {
                if self.lenient {
                    // e.g. an answer to a delivered packet with id 0: the application cannot build it
                    self.note(format!("{what} -> (builder refused: {e})"));
                } else {
                    self.flag(&[], "harness/build", format!("{what}: cannot build: {e}"));
                }
                return vec![];
            }
            Some(Ok(e)) => e,
        };
        if self.undecodable_publish(&evs, &what) {
            return evs;
        }
        if self.lenient {
            self.lenient_track(&evs);
            let allowed = self.m.ids.clone();
            self.common(&evs, Ctx { allowed, local: true, st_before: Some(st_before), what, ..Default::default() });
            return evs;
        }
        self.on_send(p, &evs, st_before, what);
        evs
    }

    fn on_send(&mut self, p: &Pkt, evs: &[Ev], st_before: St, what: String) {
        use wire::*;
        let errored = evs.iter().any(|e| e.is_error());
        let n_send = evs.iter().filter(|e| matches!(e, Ev::Send { .. })).count();
        let expect = self.expect_send(p);
        let mut ctx = Ctx { st_before: Some(st_before), local: true, what: what.clone(), ..Default::default() };
        let kname = kind_name(p.kind);
        let id_used = p.id.map_or(false, |i| self.m.ids.contains(&i));

        let refused = errored;
        let expect = if expect == Expect::EitherRm {
            if refused && evs.iter().any(|e| e.err_code() == Some(E_RM_EXCEEDED)) { Expect::Refuse(true) } else { Expect::Accept }
        } else {
            expect
        };
        match expect {
            Expect::Refuse(_) if !refused => {
                let oversize_sent = p.v == 5 && n_send > 0 && self.m.mps_send.map_or(false, |l| wire::encode(p, self.idw).len() > l as usize);
                let props: &[&'static str] = if oversize_sent {
                    // whatever else forbids the packet, it went out larger than the peer allows
                    &["C14", "C11"]
                } else if p.kind == PUBLISH && p.v == 5 && p.qos > 0 && st_before == St::Connecting && self.m.persistent && self.m.rm_send.map_or(false, |mx| self.m.queued_connecting >= mx as usize) {
                    // queued beyond the Receive Maximum the CONNECT announced
                    &["C12", "C11"]
                } else if p.kind == PUBLISH && p.v == 5 && self.m.st == St::Connected && n_send > 0 {
                    // which rule was broken decides the property
                    if self.m.mps_send.map_or(false, |l| wire::encode(p, self.idw).len() > l as usize) {
                        &["C14", "C11"]
                    } else if p.qos > 0 && self.m.rm_send.map_or(false, |mx| self.m.flow_count() >= mx as usize) {
                        &["C12"]
                    } else {
                        &["C13", "C11"]
                    }
                } else {
                    &["C11"]
                };
                self.flag(props, format!("send-not-refused/{kname}/{:?}", self.m.st), format!("{what}: must be refused in state {:?} (role {:?}, v{}), got {}", self.m.st, self.role, self.m.ver, evs_short(evs)));
                return;
            }
            Expect::Accept if refused => {
                let e = evs.iter().find_map(|e| e.err_code()).unwrap_or(0);
                let props: &[&'static str] = if e == E_RM_EXCEEDED { &["C12", "C11"] } else { &["C11"] };
                self.flag(props, format!("send-refused/{kname}/{:?}/{e:#x}", self.m.st), format!("{what}: allowed in state {:?} (role {:?}) but refused: {}", self.m.st, self.role, evs_short(evs)));
                return;
            }
            _ => {}
        }

        if refused {
            // C11: only an error event plus release of the packet's id
            for e in evs {
                let ok = match e {
                    Ev::Error(_) => true,
                    Ev::Released(x) => Some(*x) == p.id,
                    _ => false,
                };
                if !ok {
                    self.flag(&["C11"], format!("refusal-side-effect/{kname}"), format!("{what}: refused send returned {}", evs_short(evs)));
                    return;
                }
            }
            let owe = match expect {
                Expect::Refuse(o) => o,
                Expect::Either => opening_kind(p),
                Expect::Accept | Expect::EitherRm => false,
            };
            if let Some(id) = p.id {
                if id_used {
                    if owe && opening_kind(p) {
                        ctx.owed.insert(id);
                        self.stats.hit("c08_refusal_release");
                    } else if opening_kind(p) {
                        ctx.allowed.insert(id);
                    }
                }
            }
            self.stats.hit("send_refused");
            self.common(evs, ctx);
            return;
        }

        // accepted
        let connected_before = st_before == St::Connected;
        match p.kind {
            CONNECT => {
                self.m.st = St::Connecting;
                self.m.is_client = true;
                self.m.new_connection();
                self.m.ka_ms = p.keep_alive as u64 * 1000;
                self.m.persistent = if p.v == 4 { !p.clean } else { p.prop_sei().unwrap_or(0) != 0 };
                if p.clean {
                    self.m.new_session();
                    ctx.session_reset = true;
                }
                if p.v == 5 {
                    self.m.rm_recv = p.prop_rm();
                    self.m.mps_recv = p.prop_mps();
                    self.m.tam_recv = p.prop_tam().unwrap_or(0);
                }
                self.m.connect = Some(p.clone());
                self.expect_one_send(p, evs, &what);
            }
            CONNACK => {
                if p.rc_or0() == 0 {
                    self.m.st = St::Connected;
                    if p.v == 5 {
                        self.m.rm_recv = p.prop_rm();
                        self.m.mps_recv = p.prop_mps();
                        self.m.tam_recv = p.prop_tam().unwrap_or(0);
                        if let Some(s) = p.prop_ska() {
                            self.m.srv_to_ms = s as u64 * 1500;
                            if s != 0 && !evs.iter().any(|e| matches!(e, Ev::TimerReset(Tk::PingreqRecv, ms) if *ms == s as u64 * 1500)) {
                                self.flag(&["C15"], "server-keep-alive-not-armed", format!("{what}: CONNACK with Server Keep Alive {s} must arm PingreqRecv with {} ms: {}", s as u64 * 1500, evs_short(evs)));
                                return;
                            }
                        }
                    }
                    let first_is_connack = matches!(evs.iter().find(|e| matches!(e, Ev::Send{..})), Some(Ev::Send{pkt,..}) if pkt.kind == CONNACK);
                    if !first_is_connack {
                        self.flag(&["C06", "C11"], "connack-not-first", format!("{what}: {}", evs_short(evs)));
                        return;
                    }
                    if p.sp {
                        self.resume(evs, &mut ctx, 1);
                    } else {
                        self.m.new_session();
                        ctx.session_reset = true;
                        if n_send != 1 {
                            self.flag(&["C06"], "retransmission-without-session", format!("{what}: session not present but packets were re-sent: {}", evs_short(evs)));
                            return;
                        }
                    }
                } else {
                    self.m.st = St::Disc;
                    self.expect_one_send(p, evs, &what);
                }
            }
            PUBLISH => {
                if !self.on_send_publish(p, evs, connected_before, &what, &mut ctx) {
                    return;
                }
            }
            PUBACK | PUBCOMP => {
                if let Some(id) = p.id {
                    self.m.in_unans.remove(&id);
                }
                self.expect_one_send(p, evs, &what);
            }
            PUBREC => {
                if let Some(id) = p.id {
                    if p.rc_or0() >= 0x80 {
                        self.m.in_unans.remove(&id);
                        self.m.inq2.remove(&id);
                    }
                }
                self.expect_one_send(p, evs, &what);
            }
            PUBREL => {
                let id = p.id.unwrap();
                let cn = self.m.conn_no;
                if let Some(o) = self.m.out.iter_mut().find(|o| o.id == id) {
                    if o.born != cn || !connected_before {
                        self.m.flow_ambiguous = true;
                    }
                    o.stage = Stage::AwaitPubcomp;
                } else {
                    self.m.out.push(Out { id, qos: 2, stage: Stage::AwaitPubcomp, conn: 0, born: 0 });
                    self.m.flow_ambiguous = true;
                }
                // stored? (required in a persistent session; offline publishing may store as well)
                let actual = self.ep.stored();
                let was_stored = actual.len() == self.m.store.len() + 1 && actual.last().map_or(false, |l| l.kind == PUBREL && l.id == Some(id));
                if was_stored {
                    self.m.store.push(StoreEnt { id, rel: true, pkt: actual.last().unwrap().clone() });
                } else if self.m.persistent {
                    self.flag(&["C06"], "pubrel-not-stored-in-persistent-session", format!("{what}: persistent session but the PUBREL is not in the exported store"));
                    return;
                } else if !connected_before {
                    self.flag(&["C06", "C11"], "accepted-neither-sent-nor-stored/PUBREL", format!("{what}: accepted while not connected, but neither sent nor stored"));
                    return;
                }
                if connected_before {
                    self.expect_one_send(p, evs, &what);
                } else {
                    if n_send != 0 {
                        self.flag(&["C11"], "sent-while-not-connected/PUBREL", format!("{what}: {}", evs_short(evs)));
                        return;
                    }
                    self.stats.hit("pubrel_queued_offline");
                }
            }
            SUBSCRIBE => {
                self.m.subs.insert(p.id.unwrap());
                self.expect_one_send(p, evs, &what);
            }
            UNSUBSCRIBE => {
                self.m.unsubs.insert(p.id.unwrap());
                self.expect_one_send(p, evs, &what);
            }
            DISCONNECT => {
                self.m.st = St::Disc;
                self.expect_one_send(p, evs, &what);
            }
            _ => {
                self.expect_one_send(p, evs, &what);
            }
        }
        if self.failed() {
            return;
        }
        self.track_lib_sends(evs, Some(p));
        self.c15_rules(evs, None, &what);
        self.common(evs, ctx);
    }

    /// accepted non-PUBLISH send: exactly one packet requested, equal to what was given
    fn expect_one_send(&mut self, p: &Pkt, evs: &[Ev], what: &str) {
        let sends: Vec<&Pkt> = evs.iter().filter_map(|e| if let Ev::Send { pkt, .. } = e { Some(pkt) } else { None }).collect();
        if sends.len() != 1 || sends[0].kind != p.kind || sends[0].id != p.id {
            self.flag(&["C11"], format!("accepted-but-not-sent/{}", wire::kind_name(p.kind)), format!("{what}: expected exactly this packet to be requested for sending, got {}", evs_short(evs)));
        }
    }

    fn on_send_publish(&mut self, p: &Pkt, evs: &[Ev], connected: bool, what: &str, _ctx: &mut Ctx) -> bool {
        use wire::*;
        let sends: Vec<(&Pkt, usize)> = evs.iter().filter_map(|e| if let Ev::Send { pkt, bytes, .. } = e { Some((pkt, bytes.len())) } else { None }).collect();
        // intended topic
        let intended = if !p.topic.is_empty() { p.topic.clone() } else { p.alias().and_then(|a| self.m.peer_alias.get(&a).or(self.m.app_alias.get(&a)).cloned()).unwrap_or_default() };
        if let (Some(a), false) = (p.alias(), p.topic.is_empty()) {
            self.m.app_alias.insert(a, p.topic.clone());
        }
        if connected {
            if sends.len() != 1 || sends[0].0.kind != PUBLISH {
                self.flag(&["C11", "C06"], "accepted-but-not-sent/PUBLISH", format!("{what}: accepted while connected but not requested for sending: {}", evs_short(evs)));
                return false;
            }
            let w = sends[0].0;
            if w.id != p.id || w.qos != p.qos || w.payload != p.payload {
                self.flag(&["C01"], "sent-publish-differs", format!("{what}: sent {} ", w.short()));
                return false;
            }
            // C13 is checked for every Send(PUBLISH) in track_lib_sends with `intended`
            self.pending_intended = Some(intended.clone());
        } else if !sends.is_empty() {
            self.flag(&["C11"], "sent-while-not-connected/PUBLISH", format!("{what}: {}", evs_short(evs)));
            return false;
        }
        if p.qos > 0 {
            let id = p.id.unwrap();
            // C06: sent or stored
            let actual = self.ep.stored();
            let mut stored_pkt = p.clone();
            stored_pkt.dup = true;
            stored_pkt.topic = intended.clone();
            stored_pkt.props.retain(|x| !matches!(x, wire::Prop::TopicAlias(_)));
            let base: Vec<&Pkt> = self.m.store.iter().map(|s| &s.pkt).collect();
            let was_stored = actual.len() == base.len() + 1 && actual[..base.len()].iter().zip(base.iter()).all(|(a, b)| a == *b) && actual.last().map(|l| l.id) == Some(Some(id));
            let unchanged = actual.len() == base.len() && actual.iter().zip(base.iter()).all(|(a, b)| a == *b);
            if was_stored {
                let got = actual.last().unwrap();
                if *got != stored_pkt {
                    let props: &[&'static str] = if got.alias().is_some() || got.topic != stored_pkt.topic { &["C06", "C13"] } else { &["C06"] };
                    self.flag(props, "stored-copy-differs", format!("{what}: stored {} but expected {}", got.short(), stored_pkt.short()));
                    return false;
                }
                self.m.store.push(StoreEnt { id, rel: false, pkt: stored_pkt });
                self.stats.hit("publish_stored");
                if !connected {
                    self.stats.hit("publish_stored_offline");
                }
            } else if unchanged {
                if !connected {
                    self.flag(&["C06", "C08", "C11"], "accepted-neither-sent-nor-stored", format!("{what}: accepted without error while not connected, but neither sent nor stored"));
                    return false;
                }
                if self.m.persistent {
                    self.flag(&["C06"], "not-stored-in-persistent-session", format!("{what}: persistent session but the publish is not in the exported store"));
                    return false;
                }
            } else {
                let a: Vec<String> = actual.iter().map(|p| p.short()).collect();
                self.flag(&["C06"], "store-changed-unexpectedly", format!("{what}: exported store now {:?}", a));
                return false;
            }
            let cn = if connected { self.m.conn_no } else { 0 };
            if self.m.st == St::Connecting {
                self.m.queued_connecting += 1;
            }
            self.m.out.push(Out { id, qos: p.qos, stage: if p.qos == 1 { Stage::AwaitPuback } else { Stage::AwaitPubrec }, conn: cn, born: cn });
            // the id handed over with release_packet_id_if_send_error
            if connected {
                if let Some(Ev::Send { rel, .. }) = evs.iter().find(|e| matches!(e, Ev::Send { .. })) {
                    let want = if was_stored { None } else { Some(id) };
                    if *rel != want {
                        // a hint to give back the id of a packet that stays stored threatens C06 as well
                        let props: &[&'static str] = if was_stored { &["C08", "C06"] } else { &["C08"] };
                        self.flag(props, "release-on-send-error-hint", format!("{what}: release_packet_id_if_send_error = {:?}, expected {:?}", rel, want));
                        return false;
                    }
                }
            }
        }
        true
    }

    /// The only packets the library re-writes before sending are v5.0 PUBLISHes (topic alias
    /// added, or stripped for the stored copy): bytes of such a packet that an independent
    /// decoder cannot read are a fault of that rewriting.
    fn undecodable_publish(&mut self, evs: &[Ev], what: &str) -> bool {
        for e in evs {
            if let Ev::Send { pkt, bytes, size, .. } = e {
                if pkt.kind == 0 && pkt.v == 5 && bytes.first().map_or(false, |b| b >> 4 == wire::PUBLISH) {
                    self.flag(&["C13", "C01", "C14"], "emitted-publish-undecodable", format!("{what}: {} ({} bytes, size() = {size})", pkt.topic, bytes.len()));
                    return true;
                }
            }
        }
        false
    }

    /// model effects of packets the library requests to send (direct, automatic, resent)
    fn track_lib_sends(&mut self, evs: &[Ev], app_pkt: Option<&Pkt>) {
        use wire::*;
        let mut intended = self.pending_intended.take();
        for e in evs {
            let Ev::Send { pkt, bytes, size, .. } = e else { continue };
            // C14: size limit of the peer
            if pkt.v == 5 {
                if let Some(l) = self.m.mps_send {
                    if bytes.len() > l as usize {
                        self.flag(&["C14"], format!("oversize-sent/{}", kind_name(pkt.kind)), format!("{} of {} bytes requested for sending, peer's Maximum Packet Size is {l}", pkt.short(), bytes.len()));
                        return;
                    }
                }
            }
            if pkt.kind == 0 && self.undecodable_publish(std::slice::from_ref(e), "") {
                return;
            }
            if *size != bytes.len() {
                self.flag(&["C14"], "size-disagrees-with-encoding", format!("{}: size() = {size} but {} bytes", pkt.short(), bytes.len()));
                return;
            }
            let from_app = app_pkt.map_or(false, |a| a.kind == pkt.kind && a.id == pkt.id);
            match pkt.kind {
                PUBLISH => {
                    // C13: resolvable by a conformant receiver
                    let mut resolved = pkt.topic.clone();
                    if let Some(a) = pkt.alias() {
                        if a == 0 || a > self.m.tam_send {
                            self.flag(&["C13"], "alias-out-of-range-sent", format!("{}: alias {a} sent, peer's Topic Alias Maximum is {}", pkt.short(), self.m.tam_send));
                            return;
                        }
                        if pkt.topic.is_empty() {
                            match self.m.peer_alias.get(&a) {
                                Some(t) => resolved = t.clone(),
                                None => {
                                    self.flag(&["C13"], "unbound-alias-sent", format!("{}: alias {a} was never bound on this connection (receiver table {:?})", pkt.short(), self.m.peer_alias));
                                    return;
                                }
                            }
                            self.stats.hit("c13_alias_only_sent");
                        } else {
                            if self.m.peer_alias.get(&a).map_or(false, |t| *t != pkt.topic) {
                                self.stats.hit("c13_alias_rebound");
                            }
                            self.m.peer_alias.insert(a, pkt.topic.clone());
                            self.stats.hit("c13_alias_bound");
                        }
                    } else if pkt.topic.is_empty() {
                        self.flag(&["C13"], "empty-topic-without-alias-sent", pkt.short());
                        return;
                    }
                    if from_app {
                        if let Some(t) = intended.take() {
                            if resolved != t {
                                self.flag(&["C13", "C01"], "resolves-to-wrong-topic", format!("{} resolves to {:?} at the receiver, application asked for {:?}", pkt.short(), resolved, t));
                                return;
                            }
                        }
                    }
                }
                PUBACK | PUBCOMP if !from_app => {
                    if let Some(id) = pkt.id {
                        self.m.in_unans.remove(&id);
                    }
                }
                PUBREC if !from_app => {
                    if pkt.rc_or0() >= 0x80 {
                        if let Some(id) = pkt.id {
                            self.m.in_unans.remove(&id);
                            self.m.inq2.remove(&id);
                        }
                    }
                }
                PUBREL if !from_app => {
                    // automatic PUBREL after PUBREC, or a resent one
                    if let Some(id) = pkt.id {
                        let persistent = self.m.persistent;
                        if let Some(o) = self.m.out.iter_mut().find(|o| o.id == id) {
                            if o.stage == Stage::GotPubrec {
                                o.stage = Stage::AwaitPubcomp;
                                if persistent {
                                    self.m.store.push(StoreEnt { id, rel: true, pkt: pkt.clone() });
                                }
                            }
                        }
                    }
                }
                DISCONNECT if !from_app => {
                    self.m.st = St::Disc;
                }
                CONNACK if !from_app => {
                    // refusing CONNACK generated for an unparsable CONNECT
                    if pkt.rc_or0() != 0 {
                        self.m.st = St::Disc;
                    }
                }
                _ => {}
            }
        }
    }

    /// Session resume: the list must request exactly the stored packets, in store order.
    /// `skip` = number of leading Send events that are not retransmissions (the CONNACK itself).
    fn resume(&mut self, evs: &[Ev], ctx: &mut Ctx, skip: usize) {
        let mut expect: Vec<Pkt> = vec![];
        let limit = if self.m.ver == 5 { self.m.mps_send } else { None };
        for s in self.m.store.clone() {
            let size = wire::encode(&s.pkt, self.idw).len();
            if limit.map_or(false, |l| size > l as usize) {
                ctx.owed.insert(s.id);
                ctx.owed_props = vec!["C14", "C06"];
                self.stats.hit("oversize_stored_dropped");
            } else {
                expect.push(s.pkt.clone());
            }
        }
        let actual: Vec<&Pkt> = evs.iter().filter_map(|e| if let Ev::Send { pkt, .. } = e { Some(pkt) } else { None }).skip(skip).collect();
        let same = actual.len() == expect.len() && actual.iter().zip(expect.iter()).all(|(a, b)| *a == b);
        if !same {
            let a: Vec<String> = actual.iter().map(|p| p.short()).collect();
            let b: Vec<String> = expect.iter().map(|p| p.short()).collect();
            // an oversize packet among the re-sent ones is C14's business as well
            let over = limit.map_or(false, |l| actual.iter().any(|p| wire::encode(p, self.idw).len() > l as usize));
            let props: &[&'static str] = if over { &["C06", "C16", "C14"] } else { &["C06", "C16"] };
            self.flag(props, "resume-retransmission", format!("{}: re-sent {:?} but the store holds {:?}", ctx.what, a, b));
            return;
        }
        if !expect.is_empty() {
            self.stats.hit("resume_with_stored");
            if expect.iter().any(|p| p.kind == wire::PUBREL) {
                self.stats.hit("resume_with_stored_pubrel");
            }
        }
        let cn = self.m.conn_no;
        let dropped = ctx.owed.clone();
        let stored_ids: BTreeSet<u32> = self.m.store.iter().map(|s| s.id).collect();
        for o in self.m.out.iter_mut() {
            if dropped.contains(&o.id) {
                continue;
            }
            if stored_ids.contains(&o.id) {
                o.conn = cn;
            } else {
                self.m.flow_ambiguous = true;
            }
        }
    }

    /// C15 rules that look at the presence of timer requests in a list.
    fn c15_rules(&mut self, evs: &[Ev], accepted_frame: Option<u8>, what: &str) {
        use wire::*;
        if self.failed() {
            return;
        }
        let sends: Vec<&Pkt> = evs.iter().filter_map(|e| if let Ev::Send { pkt, .. } = e { Some(pkt) } else { None }).collect();
        let reset = |k: Tk| evs.iter().find_map(|e| match e { Ev::TimerReset(kk, ms) if *kk == k => Some(*ms), _ => None });
        let last_reset = |k: Tk| evs.iter().rev().find_map(|e| match e { Ev::TimerReset(kk, ms) if *kk == k => Some(*ms), _ => None });
        // client: re-arm PINGREQ timer after every packet it sends
        if self.m.is_client && self.m.st == St::Connected && sends.iter().any(|p| p.kind != DISCONNECT) {
            let iv = self.m.ping_interval();
            match last_reset(Tk::PingreqSend) {
                Some(ms) => {
                    if iv == 0 {
                        self.flag(&["C15"], "pingreq-armed-though-disabled", format!("{what}: PingreqSend armed with {ms} ms but the interval is 0 (disabled)"));
                        return;
                    }
                    if ms != iv {
                        self.flag(&["C15"], "pingreq-interval-priority", format!("{what}: PingreqSend armed with {ms} ms, expected {iv} (override {:?}, Server Keep Alive {:?}, keep-alive {})", self.m.user_ms, self.m.ska_ms, self.m.ka_ms));
                        return;
                    }
                    self.stats.hit("c15_pingreq_rearmed");
                }
                None => {
                    if iv != 0 {
                        self.flag(&["C15"], format!("pingreq-not-rearmed/{}", what.split(|c| c == '(' || c == ' ').next().unwrap_or("")), format!("{what}: connected client requested a send but did not re-arm PingreqSend ({iv} ms): {}", evs_short(evs)));
                        return;
                    }
                }
            }
        }
        // PINGREQ sent arms the response timer iff configured
        if sends.iter().any(|p| p.kind == PINGREQ) {
            let to = self.opts.pingresp_to_ms;
            match reset(Tk::PingrespRecv) {
                Some(ms) if to == 0 || ms != to => {
                    self.flag(&["C15"], "pingresp-timer-wrong", format!("{what}: PingrespRecv armed with {ms}, configured {to}"));
                    return;
                }
                None if to != 0 => {
                    self.flag(&["C15"], "pingresp-timer-not-armed", format!("{what}: PINGREQ sent but PingrespRecv ({to} ms) not armed"));
                    return;
                }
                _ => {}
            }
            self.stats.hit("c15_pingreq_sent");
        }
        // server: re-arm the receive timer on every accepted packet
        if let Some(k) = accepted_frame {
            if !self.m.is_client && k != DISCONNECT && self.m.st != St::Disc {
                let to = self.m.srv_to_ms;
                match last_reset(Tk::PingreqRecv) {
                    Some(ms) => {
                        if to == 0 {
                            self.flag(&["C15", "C10"], "pingreq-recv-armed-for-keep-alive-0", format!("{what}: server armed PingreqRecv with {ms} ms although keep-alive is 0"));
                            return;
                        }
                        if ms != to {
                            self.flag(&["C15"], "pingreq-recv-interval", format!("{what}: PingreqRecv armed with {ms}, expected {to}"));
                            return;
                        }
                        self.stats.hit("c15_server_rearmed");
                    }
                    None => {
                        if to != 0 {
                            self.flag(&["C15"], format!("pingreq-recv-not-rearmed/{}", kind_name(k)), format!("{what}: server accepted {} but did not re-arm PingreqRecv ({to} ms)", kind_name(k)));
                            return;
                        }
                    }
                }
            }
            // a client has no receive timeout: nothing it receives arms PingreqRecv
            if self.m.is_client && self.m.st != St::Disc {
                if let Some(ms) = last_reset(Tk::PingreqRecv) {
                    self.flag(&["C15", "C10"], "client-armed-receive-timer", format!("{what}: a client armed PingreqRecv with {ms} ms"));
                    return;
                }
            }
            if k == PINGRESP && self.m.armed[Tk::PingrespRecv.ix()] && !evs.iter().any(|e| matches!(e, Ev::TimerCancel(Tk::PingrespRecv))) {
                self.flag(&["C15"], "pingresp-not-cancelled", format!("{what}: PINGRESP accepted but the armed PingrespRecv timer was not cancelled"));
            }
        }
    }

    // ------------------------------------------------------------------ other local calls

    pub fn timer(&mut self, k: Tk) -> Vec<Ev> {
        if self.failed() {
            return vec![];
        }
        if let Some(c) = self.calls.as_mut() {
            c.push(WCall::Timer(k));
        }
        let what = format!("timer({k:?})");
        let st_before = self.m.st;
        let Some(evs) = self.guarded(&what, &[], |ep| ep.timer(k)) else { return vec![] };
        // an expired timer is no longer armed
        self.m.armed[k.ix()] = false;
        if self.lenient {
            self.lenient_track(&evs);
            let allowed = self.m.ids.clone();
            self.common(&evs, Ctx { allowed, local: true, st_before: Some(st_before), what, ..Default::default() });
            return evs;
        }
        let sends: Vec<Pkt> = evs.iter().filter_map(|e| if let Ev::Send { pkt, .. } = e { Some(pkt.clone()) } else { None }).collect();
        let closes = evs.iter().any(|e| matches!(e, Ev::Close));
        if st_before == St::Connected {
            match k {
                Tk::PingreqSend => {
                    if !(sends.len() == 1 && sends[0].kind == wire::PINGREQ) {
                        self.flag(&["C15"], "expiry-effect/PingreqSend", format!("{what}: expected PINGREQ to be sent: {}", evs_short(&evs)));
                        return evs;
                    }
                    self.stats.hit("c15_expiry_pingreq_send");
                }
                Tk::PingreqRecv | Tk::PingrespRecv => {
                    // v5.0: DISCONNECT 0x8D, unless even that packet exceeds the peer's Maximum
                    // Packet Size - then the connection is closed without it (C14 forbids the
                    // packet, C19 still wants the close)
                    let mut d = Pkt::new(5, wire::DISCONNECT);
                    d.rc = Some(0x8d);
                    let fits = self.m.mps_send.map_or(true, |l| wire::encode(&d, self.idw).len() <= l as usize);
                    let ok = if self.m.ver == 5 && fits { closes && sends.len() == 1 && sends[0].kind == wire::DISCONNECT && sends[0].rc == Some(0x8d) } else { closes && sends.is_empty() };
                    if !ok {
                        let props: &[&'static str] = if closes { &["C15"] } else { &["C15", "C19"] };
                        self.flag(props, format!("expiry-effect/{k:?}"), format!("{what}: expected {} : {}", if self.m.ver == 5 && fits { "DISCONNECT 0x8D then close" } else { "close" }, evs_short(&evs)));
                        return evs;
                    }
                    if self.m.ver == 5 && !fits {
                        // closed like after a DISCONNECT, only without the packet
                        self.m.st = St::Disc;
                        self.stats.hit("c19_keepalive_timeout_disconnect_does_not_fit");
                    }
                    self.stats.hit("c15_expiry_timeout");
                    self.stats.hit("c19_keepalive_timeout");
                }
            }
        }
        self.track_lib_sends(&evs, None);
        self.c15_rules(&evs, None, &what);
        self.common(&evs, Ctx { st_before: Some(st_before), local: true, what, ..Default::default() });
        evs
    }

    pub fn closed(&mut self) -> Vec<Ev> {
        if self.failed() {
            return vec![];
        }
        if let Some(c) = self.calls.as_mut() {
            c.push(WCall::Closed);
        }
        let what = "notify_closed()".to_string();
        let st_before = self.m.st;
        let Some(evs) = self.guarded(&what, &[], |ep| ep.closed()) else { return vec![] };
        self.want_close = false;
        self.rx.clear();
        let mut ctx = Ctx { st_before: Some(st_before), local: true, what: what.clone(), ..Default::default() };
        if self.lenient {
            self.lenient_track(&evs);
            ctx.allowed = self.m.ids.clone();
            self.m.st = St::Disc;
        } else {
            ctx.owed.extend(self.m.subs.iter().cloned());
            ctx.owed.extend(self.m.unsubs.iter().cloned());
            if !self.m.persistent && !self.m.store.is_empty() && self.ep.stored().len() == self.m.store.len() {
                // only offline publishing stores in a non-persistent session
                self.note(format!("{what} -> {}", evs_short(&evs)));
                // were the ids given back at least? if not, C08's close clause is broken as well
                let unreleased = self.m.out.iter().filter(|o| o.stage != Stage::GotPubrec).any(|o| !evs.iter().any(|e| matches!(e, Ev::Released(x) if *x == o.id)));
                let props: &[&'static str] = if unreleased { &["C06", "C08"] } else { &["C06"] };
                self.flag(props, "offline-queued-packet-kept-after-nonpersistent-close", format!("{what}: the session is not persistent, {}, but {} packet(s) stay in the exported store", if unreleased { "its in-flight exchanges end here without their ids being released" } else { "the ids of its in-flight publishes are released" }, self.m.store.len()));
                return evs;
            }
            if !self.m.persistent && !self.opts.offline && self.viol.is_none() {
                // the session ends with the connection: nothing of its QoS 2 receive state may
                // stay behind (a later session would take a new message for a retransmission)
                let h = self.ep.handled();
                if !h.is_empty() {
                    self.note(format!("{what} -> {}", evs_short(&evs)));
                    self.flag(&["C10", "C07"], "handled-ids-survive-nonpersistent-close", format!("{what}: the session was not persistent but the handled QoS 2 ids {:?} are still there", h));
                    return evs;
                }
            }
            if !self.m.persistent {
                for o in &self.m.out {
                    if o.stage == Stage::GotPubrec {
                        ctx.allowed.insert(o.id);
                    } else {
                        ctx.owed.insert(o.id);
                    }
                }
                self.m.inq2.clear();
                if !self.m.out.is_empty() {
                    self.stats.hit("close_releases_inflight");
                }
            } else if !self.m.out.is_empty() {
                self.stats.hit("close_keeps_persistent_inflight");
            }
            if !ctx.owed.is_empty() {
                self.stats.hit("c08_close_release");
            }
            self.m.st = St::Disc;
            // negotiated limits and alias tables are connection-scoped
            self.m.rm_send = None;
            self.m.rm_recv = None;
            self.m.mps_send = None;
            self.m.mps_recv = None;
            self.m.tam_send = 0;
            self.m.tam_recv = 0;
            self.m.peer_alias.clear();
            self.m.local_alias.clear();
            self.m.app_alias.clear();
            if evs.iter().any(|e| matches!(e, Ev::Send { .. } | Ev::Close | Ev::Recv { .. })) {
                self.flag(&["C05", "C19"], "notify-closed-side-effect", format!("{what}: {}", evs_short(&evs)));
                return evs;
            }
        }
        self.common(&evs, ctx);
        if !self.failed() && self.m.armed.iter().any(|a| *a) {
            let a = self.m.armed;
            // a timer that survives the close also runs into the next connection (C10)
            self.flag(&["C15", "C10"], "armed-after-close", format!("{what}: timers still armed after the transport was reported closed: {:?}", a));
        }
        evs
    }

    pub fn acquire(&mut self) -> Option<u32> {
        if self.failed() {
            return None;
        }
        if let Some(c) = self.calls.as_mut() {
            c.push(WCall::Acquire);
        }
        let what = "acquire()".to_string();
        let r = self.guarded(&what, &["C08"], |ep| ep.acquire())?;
        self.note(format!("{what} -> {:?}", r));
        if let Some(t) = self.trace.as_mut() {
            t.push((format!("{what} -> {:?}", r), vec![]));
        }
        match r {
            Ok(id) => {
                if id == 0 || id > max_id(self.pid32) || self.m.ids.contains(&id) {
                    self.flag(&["C08"], "acquire-returned-in-use", format!("acquire returned {id}, in use {:?}", self.m.ids));
                    return None;
                }
                self.m.ids.insert(id);
                if !self.lenient {
                    self.sync(&what, false);
                }
                Some(id)
            }
            Err(e) => {
                if (self.m.ids.len() as u64) < max_id(self.pid32) as u64 {
                    self.flag(&["C08"], "acquire-failed-with-free-ids", format!("acquire failed ({}) with {} ids in use", e.1, self.m.ids.len()));
                } else {
                    self.stats.hit("c08_exhaustion_reported");
                }
                None
            }
        }
    }

    pub fn register(&mut self, id: u32) -> bool {
        if self.failed() {
            return false;
        }
        if let Some(c) = self.calls.as_mut() {
            c.push(WCall::Register(id));
        }
        let what = format!("register({id})");
        let Some(r) = self.guarded(&what, &["C08"], |ep| ep.register(id)) else { return false };
        self.note(format!("{what} -> {:?}", r));
        if let Some(t) = self.trace.as_mut() {
            t.push((format!("{what} -> {:?}", r), vec![]));
        }
        let should = id >= 1 && id <= max_id(self.pid32) && !self.m.ids.contains(&id);
        if r.is_ok() != should {
            self.flag(&["C08"], "register-result", format!("{what} returned {:?}, expected {}", r, if should { "Ok" } else { "Err" }));
            return false;
        }
        if r.is_ok() {
            self.m.ids.insert(id);
        }
        if !self.lenient {
            self.sync(&what, false);
        }
        r.is_ok()
    }

    pub fn release(&mut self, id: u32) -> Vec<Ev> {
        if self.failed() {
            return vec![];
        }
        if let Some(c) = self.calls.as_mut() {
            c.push(WCall::Release(id));
        }
        let what = format!("release({id})");
        let st_before = self.m.st;
        let Some(evs) = self.guarded(&what, &["C08"], |ep| ep.release(id)) else { return vec![] };
        let mut ctx = Ctx { st_before: Some(st_before), local: true, what: what.clone(), ..Default::default() };
        if self.m.ids.contains(&id) {
            ctx.owed.insert(id);
        }
        if evs.iter().any(|e| !matches!(e, Ev::Released(_))) {
            self.flag(&["C08"], "release-side-effect", format!("{what}: {}", evs_short(&evs)));
            return evs;
        }
        self.common(&evs, ctx);
        evs
    }

    pub fn erase(&mut self, id: u32) -> Vec<Ev> {
        if self.failed() {
            return vec![];
        }
        if let Some(c) = self.calls.as_mut() {
            c.push(WCall::Erase(id));
        }
        let what = format!("erase_stored_publish({id})");
        let st_before = self.m.st;
        let Some(evs) = self.guarded(&what, &[], |ep| ep.erase_stored(id)) else { return vec![] };
        let mut ctx = Ctx { st_before: Some(st_before), local: true, what: what.clone(), ..Default::default() };
        if self.lenient {
            ctx.allowed = self.m.ids.clone();
        } else if self.m.store.iter().any(|s| s.id == id && !s.rel) {
            ctx.owed.insert(id);
            self.stats.hit("erase_stored");
        }
        if evs.iter().any(|e| !matches!(e, Ev::Released(_))) {
            self.flag(&["C06"], "erase-side-effect", format!("{what}: {}", evs_short(&evs)));
            return evs;
        }
        self.common(&evs, ctx);
        evs
    }

    pub fn set_ping(&mut self, ms: Option<u64>) -> Vec<Ev> {
        if self.failed() {
            return vec![];
        }
        if let Some(c) = self.calls.as_mut() {
            c.push(WCall::SetPing(ms));
        }
        let what = format!("set_pingreq_send_interval({ms:?})");
        let st_before = self.m.st;
        let Some(evs) = self.guarded(&what, &[], |ep| ep.set_pingreq_send_interval(ms)) else { return vec![] };
        self.m.user_ms = ms;
        if !self.lenient {
            let rs: Vec<u64> = evs.iter().filter_map(|e| if let Ev::TimerReset(Tk::PingreqSend, d) = e { Some(*d) } else { None }).collect();
            match ms {
                Some(v) if v > 0 && st_before == St::Connected && self.m.is_client => {
                    if rs != vec![v] {
                        self.flag(&["C15"], "override-not-applied", format!("{what}: expected PingreqSend to be re-armed with {v}: {}", evs_short(&evs)));
                        return evs;
                    }
                }
                Some(0) => {
                    if self.m.armed[Tk::PingreqSend.ix()] && !evs.iter().any(|e| matches!(e, Ev::TimerCancel(Tk::PingreqSend))) {
                        self.flag(&["C15"], "override-0-not-cancelled", format!("{what}: interval 0 disables PINGREQ but the armed timer was not cancelled"));
                        return evs;
                    }
                }
                _ => {}
            }
            if evs.iter().any(|e| !matches!(e, Ev::TimerReset(..) | Ev::TimerCancel(_))) {
                self.flag(&["C15"], "set-interval-side-effect", format!("{what}: {}", evs_short(&evs)));
                return evs;
            }
        }
        self.common(&evs, Ctx { st_before: Some(st_before), local: true, what, ..Default::default() });
        evs
    }

    /// set_pingresp_recv_timeout: configuration only. It returns no events, so it can neither
    /// arm nor cancel anything: a response timer armed by an earlier PINGREQ stays armed (and is
    /// still cancelled by PINGRESP / close), the new value applies from the next PINGREQ on.
    pub fn set_pingresp(&mut self, ms: u64) {
        if self.failed() {
            return;
        }
        if let Some(c) = self.calls.as_mut() {
            c.push(WCall::SetPingresp(ms));
        }
        let what = format!("set_pingresp_recv_timeout({ms})");
        let st_before = self.m.st;
        if self.guarded(&what, &[], |ep| ep.set_pingresp_recv_timeout(ms)).is_none() {
            return;
        }
        self.opts.pingresp_to_ms = ms;
        self.stats.hit(if self.m.armed[Tk::PingrespRecv.ix()] { "c15_pingresp_timeout_changed_while_armed" } else { "c15_pingresp_timeout_changed" });
        self.common(&[], Ctx { st_before: Some(st_before), local: true, what, ..Default::default() });
    }

    /// The automatic-behaviour switches are plain configuration: no events, no other state; each
    /// is read when the next packet is processed.
    pub fn set_auto(&mut self, which: u8, on: bool) {
        if self.failed() {
            return;
        }
        if let Some(c) = self.calls.as_mut() {
            c.push(WCall::SetAuto(which, on));
        }
        let what = format!("set_auto[{which}]({on})");
        let st_before = self.m.st;
        // 4: offline publishing is only ever switched off again where it is off already - the one
        // call that is a no-op by its documentation (switching it on stores from then on, and what
        // a change while a session exists should mean is not pinned by any property)
        if which >= 4 && self.opts.offline {
            return;
        }
        let offline = false;
        let ok = self.guarded(&what, &[], |ep| match which {
            0 => ep.set_auto_pub_response(on),
            1 => ep.set_auto_ping_response(on),
            2 => ep.set_auto_map(on),
            3 => ep.set_auto_replace(on),
            _ => ep.set_offline_publish(offline),
        });
        if ok.is_none() {
            return;
        }
        match which {
            0 => self.opts.auto_pub = on,
            1 => self.opts.auto_ping = on,
            2 => self.opts.auto_map = on,
            3 => self.opts.auto_replace = on,
            _ => {}
        }
        self.stats.hit("option_toggled_while_running");
        self.common(&[], Ctx { st_before: Some(st_before), local: true, what, ..Default::default() });
    }

    /// Crash: drop the object, keep only the durable export, build a fresh object of the
    /// same kind and options and restore it.
    pub fn crash_restore(&mut self, mangle: ExportMangle) {
        if self.failed() {
            return;
        }
        if let Some(c) = self.calls.as_mut() {
            c.push(WCall::Crash(mangle));
        }
        let what = format!("crash+restore({mangle:?})");
        let role = self.role;
        let ver0 = self.ver0;
        let pid32 = self.pid32;
        let opts = self.opts.clone();
        let user_ms = self.m.user_ms;
        let r = self.guarded(&what, &["C16"], move |ep| {
            let ex = ep.export(mangle);
            let mut n = new_endpoint(role, ver0, pid32);
            n.set_auto_pub_response(opts.auto_pub);
            n.set_auto_ping_response(opts.auto_ping);
            n.set_auto_map(opts.auto_map);
            n.set_auto_replace(opts.auto_replace);
            if opts.offline {
                n.set_offline_publish(true);
            }
            if opts.pingresp_to_ms != 0 {
                n.set_pingresp_recv_timeout(opts.pingresp_to_ms);
            }
            if user_ms.is_some() {
                n.set_pingreq_send_interval(user_ms);
            }
            n.restore(&ex);
            n
        });
        let Some(n) = r else { return };
        self.ep = n;
        self.note(what.clone());
        self.stats.hit("crash_restore");
        // model: only the durable part survives
        let stored_ids: BTreeSet<u32> = self.m.store.iter().map(|s| s.id).collect();
        self.m.ids = stored_ids.clone();
        self.m.out.retain(|o| stored_ids.contains(&o.id));
        for o in self.m.out.iter_mut() {
            o.conn = 0;
        }
        self.m.subs.clear();
        self.m.unsubs.clear();
        self.m.st = St::Disc;
        self.m.armed = [false; 3];
        self.m.ver = self.ver0.num();
        self.m.persistent = false;
        self.m.is_client = false;
        self.m.connect = None;
        self.m.rm_send = None;
        self.m.mps_send = None;
        self.m.tam_send = 0;
        self.m.peer_alias.clear();
        self.m.local_alias.clear();
        self.rx.clear();
        self.want_close = false;
        if !self.lenient {
            self.sync_after_restore(&what);
        } else {
            self.lenient_resync();
        }
    }

    /// what the restored object holds right after the restore is C16's business whatever
    /// other property the comparison belongs to
    fn sync_after_restore(&mut self, what: &str) {
        let had = self.viol.is_some();
        self.sync(what, false);
        if !had {
            if let Some(v) = self.viol.as_mut() {
                if !v.props.contains(&"C16") {
                    v.props.push("C16");
                }
            }
        }
    }
}

impl Watch {
    /// C13: `regulate_for_store` must yield the full topic and no alias, resolving an
    /// alias-only packet through the bindings that were actually sent on this connection.
    pub fn regulate(&mut self, p: &Pkt) {
        if self.failed() || self.lenient {
            return;
        }
        let what = format!("regulate_for_store({})", p.short());
        let Some(r) = self.guarded(&what, &["C13"], |ep| ep.regulate(p)) else { return };
        let r = match r {
            Ok(r) => r,
            Err(e) => {
                self.flag(&[], "harness/build", format!("{what}: {e}"));
                return;
            }
        };
        self.note(format!("{what} -> {:?}", r.as_ref().map(|x| x.short()).map_err(|e| e.1.clone())));
        self.stats.hit("c13_regulate_for_store");
        let want: Option<String> = if !p.topic.is_empty() { Some(p.topic.clone()) } else { p.alias().and_then(|a| self.m.peer_alias.get(&a).cloned()) };
        match (r, want) {
            (Ok(q), Some(t)) => {
                if q.topic != t || q.alias().is_some() || q.payload != p.payload || q.id != p.id || q.qos != p.qos {
                    self.flag(&["C13"], "regulate-for-store-result", format!("{what}: got {}, expected the full topic {:?} and no Topic Alias", q.short(), t));
                }
            }
            (Ok(q), None) => {
                self.flag(&["C13"], "regulate-for-store-resolves-unbound-alias", format!("{what}: got {} although no PUBLISH sent on this connection bound that alias", q.short()));
            }
            (Err(_), Some(t)) => {
                self.flag(&["C13"], "regulate-for-store-refuses-bound-alias", format!("{what}: refused although the alias is bound to {:?}", t));
            }
            (Err(_), None) => {}
        }
    }
}

/// What survives a crash, together with the part of the model that describes it.
pub struct Durable {
    pub export: Export,
    pub store: Vec<StoreEnt>,
    pub out: Vec<Out>,
    pub inq2: BTreeSet<u32>,
}

impl Watch {
    /// The process dies: the export is taken, the object is replaced by a fresh one that
    /// knows nothing (a broker creates a new connection object per accepted transport).
    pub fn crash_take(&mut self) -> Option<Durable> {
        if self.failed() {
            return None;
        }
        let what = "crash(export taken, fresh object)".to_string();
        let role = self.role;
        let ver0 = self.ver0;
        let pid32 = self.pid32;
        let opts = self.opts.clone();
        let user_ms = self.m.user_ms;
        let r = self.guarded(&what, &["C16"], move |ep| {
            let ex = ep.export(ExportMangle::None);
            let mut n = new_endpoint(role, ver0, pid32);
            n.set_auto_pub_response(opts.auto_pub);
            n.set_auto_ping_response(opts.auto_ping);
            n.set_auto_map(opts.auto_map);
            n.set_auto_replace(opts.auto_replace);
            if opts.offline {
                n.set_offline_publish(true);
            }
            if opts.pingresp_to_ms != 0 {
                n.set_pingresp_recv_timeout(opts.pingresp_to_ms);
            }
            if user_ms.is_some() {
                n.set_pingreq_send_interval(user_ms);
            }
            (ex, n)
        });
        let (ex, n) = r?;
        self.ep = n;
        self.note(what);
        self.stats.hit("crash_restore");
        let stored_ids: BTreeSet<u32> = self.m.store.iter().map(|s| s.id).collect();
        let mut out: Vec<Out> = self.m.out.iter().filter(|o| stored_ids.contains(&o.id)).cloned().collect();
        for o in out.iter_mut() {
            o.conn = 0;
        }
        let d = Durable { export: ex, store: self.m.store.clone(), out, inq2: self.m.inq2.clone() };
        let user = self.m.user_ms;
        let conn_no = self.m.conn_no;
        self.m = Model::new(self.role, self.ver0);
        self.m.user_ms = user;
        self.m.conn_no = conn_no;
        self.rx.clear();
        self.want_close = false;
        Some(d)
    }

    /// The application found the session of the client that just connected and restores it.
    pub fn restore_durable(&mut self, d: &Durable) {
        if self.failed() {
            return;
        }
        let what = "restore(export)".to_string();
        if self.guarded(&what, &["C16"], |ep| ep.restore(&d.export)).is_none() {
            return;
        }
        self.note(what.clone());
        for s in &d.store {
            self.m.ids.insert(s.id);
        }
        self.m.store = d.store.clone();
        self.m.out = d.out.clone();
        self.m.inq2 = d.inq2.clone();
        self.sync_after_restore(&what);
    }
}

include!("model_frames.rs");
