//! Scenarios: how a run for property P is generated (adaptive, PRNG driven) and replayed
//! (from a recorded case, no PRNG).

use crate::ep::*;
use crate::model::*;
use crate::rng::Rng;
use crate::solo::{self, Cfg, GenProfile, Op, Solo};
use serde::{Deserialize, Serialize};
use std::collections::BTreeMap;
use std::hash::{Hash, Hasher};
use crate::twin::{self, ForkKind};

#[derive(Clone, Copy, Debug, PartialEq, Eq)]
pub enum Tier {
    Quick,
    Thorough,
}

#[derive(Serialize, Deserialize, Clone, Debug, PartialEq)]
#[serde(tag = "driver")]
pub enum Case {
    Solo { cfg: Cfg, ops: Vec<Op> },
    Alloc { case: crate::alloc::ACase },
    /// C09: reference feeding of (cfg, ops) vs burst `burst` of the same byte stream cut at `cuts`
    Chunk { cfg: Cfg, ops: Vec<Op>, burst: usize, cuts: Vec<usize> },
    /// C16 / C10 / C17 twin comparison; `ops` = head, `cont` = traced continuation
    Fork { kind: ForkKind, cfg: Cfg, ops: Vec<Op>, cont: Vec<Op>, mangle: ExportMangle },
    /// one cell of the C11 / C17 matrix (index into the enumeration); index = number of cells: compile-time table
    Cell { prop: String, index: usize },
    /// C11: the same history with and without a refused send injected before op `at`
    Inject { cfg: Cfg, ops: Vec<Op>, at: usize, pkt: crate::wire::Pkt },
    /// C01: client object + server object over the simulated transport
    Pair { cfg: crate::pair::PCfg, ops: Vec<crate::pair::POp> },
}

impl Case {
    pub fn len(&self) -> usize {
        match self {
            Case::Solo { ops, .. } => ops.len(),
            Case::Alloc { case } => case.ops.len(),
            Case::Chunk { ops, .. } => ops.len(),
            Case::Fork { ops, cont, .. } => ops.len() + cont.len(),
            Case::Cell { .. } => 0,
            Case::Inject { ops, .. } => ops.len(),
            Case::Pair { ops, .. } => ops.len(),
        }
    }
    /// the case with only the ops whose index is in `keep`
    pub fn subset(&self, keep: &[bool]) -> Case {
        match self {
            Case::Solo { cfg, ops } => Case::Solo { cfg: cfg.clone(), ops: ops.iter().zip(keep).filter(|(_, k)| **k).map(|(o, _)| o.clone()).collect() },
            Case::Alloc { case } => {
                let mut c = case.clone();
                c.ops = case.ops.iter().zip(keep).filter(|(_, k)| **k).map(|(o, _)| o.clone()).collect();
                Case::Alloc { case: c }
            }
            Case::Chunk { cfg, ops, burst, cuts } => Case::Chunk { cfg: cfg.clone(), ops: ops.iter().zip(keep).filter(|(_, k)| **k).map(|(o, _)| o.clone()).collect(), burst: *burst, cuts: cuts.clone() },
            Case::Cell { .. } => self.clone(),
            Case::Pair { cfg, ops } => Case::Pair { cfg: cfg.clone(), ops: ops.iter().zip(keep).filter(|(_, k)| **k).map(|(o, _)| o.clone()).collect() },
            Case::Inject { cfg, ops, at, pkt } => {
                let removed_before = keep[..*at.min(&keep.len())].iter().filter(|k| !**k).count();
                Case::Inject { cfg: cfg.clone(), ops: ops.iter().zip(keep).filter(|(_, k)| **k).map(|(o, _)| o.clone()).collect(), at: at - removed_before, pkt: pkt.clone() }
            }
            Case::Fork { kind, cfg, ops, cont, mangle } => {
                let n = ops.len();
                Case::Fork {
                    kind: *kind,
                    cfg: cfg.clone(),
                    ops: ops.iter().zip(&keep[..n]).filter(|(_, k)| **k).map(|(o, _)| o.clone()).collect(),
                    cont: cont.iter().zip(&keep[n..]).filter(|(_, k)| **k).map(|(o, _)| o.clone()).collect(),
                    mangle: *mangle,
                }
            }
        }
    }
    pub fn simpler_variants(&self) -> Vec<Case> {
        match self {
            Case::Alloc { .. } | Case::Cell { .. } | Case::Inject { .. } => vec![],
            Case::Pair { cfg, ops } => {
                use crate::pair::POp;
                let mut out = vec![];
                let mut push = |c: crate::pair::PCfg| {
                    if c != *cfg {
                        out.push(Case::Pair { cfg: c, ops: ops.clone() })
                    }
                };
                macro_rules! off {
                    ($f:ident) => {{
                        let mut c = cfg.clone();
                        c.$f = Default::default();
                        push(c);
                    }};
                }
                off!(pid32);
                off!(any_roles);
                off!(undet_server);
                off!(c_auto_map);
                off!(c_auto_replace);
                off!(s_auto_map);
                off!(s_auto_replace);
                off!(vectored);
                off!(fresh_server);
                off!(ka);
                off!(pingresp_to_ms);
                off!(c_rm);
                off!(c_tam);
                off!(c_mps);
                off!(s_rm);
                off!(s_tam);
                off!(s_mps);
                off!(s_ska);
                for (i, o) in ops.iter().enumerate() {
                    let simpler = match o {
                        POp::Deliver { to, n } if *n != 0 => Some(POp::Deliver { to: *to, n: 0 }),
                        POp::Pub { side, qos, topic, alias, pad, fail } => {
                            if *fail {
                                Some(POp::Pub { side: *side, qos: *qos, topic: *topic, alias: *alias, pad: *pad, fail: false })
                            } else if *pad != 0 {
                                Some(POp::Pub { side: *side, qos: *qos, topic: *topic, alias: *alias, pad: 0, fail: false })
                            } else if *alias != 0 {
                                Some(POp::Pub { side: *side, qos: *qos, topic: *topic, alias: 0, pad: 0, fail: false })
                            } else if *topic != 0 {
                                Some(POp::Pub { side: *side, qos: *qos, topic: 0, alias: 0, pad: 0, fail: false })
                            } else {
                                None
                            }
                        }
                        POp::Lose { keep_c, keep_s } if *keep_c != 0 || *keep_s != 0 => Some(POp::Lose { keep_c: 0, keep_s: 0 }),
                        _ => None,
                    };
                    if let Some(n) = simpler {
                        let mut o2 = ops.clone();
                        o2[i] = n;
                        out.push(Case::Pair { cfg: cfg.clone(), ops: o2 });
                    }
                }
                out
            }
            Case::Chunk { cfg, ops, burst, cuts } => {
                // fewer cuts, earlier bursts
                let mut out = vec![];
                for i in 0..cuts.len() {
                    let mut c = cuts.clone();
                    c.remove(i);
                    out.push(Case::Chunk { cfg: cfg.clone(), ops: ops.clone(), burst: *burst, cuts: c });
                }
                for b in 0..*burst {
                    out.push(Case::Chunk { cfg: cfg.clone(), ops: ops.clone(), burst: b, cuts: cuts.clone() });
                }
                out
            }
            Case::Fork { kind, cfg, ops, cont, mangle } => {
                let mut out = vec![];
                if *mangle != ExportMangle::None {
                    out.push(Case::Fork { kind: *kind, cfg: cfg.clone(), ops: ops.clone(), cont: cont.clone(), mangle: ExportMangle::None });
                }
                out
            }
            Case::Solo { cfg, ops } => {
                let mut out = vec![];
                let mut push = |c: Cfg| {
                    if c != *cfg {
                        out.push(Case::Solo { cfg: c, ops: ops.clone() })
                    }
                };
                macro_rules! off {
                    ($f:ident) => {{
                        let mut c = cfg.clone();
                        c.$f = Default::default();
                        push(c);
                    }};
                }
                off!(pid32);
                off!(auto_pub);
                off!(auto_ping);
                off!(auto_map);
                off!(auto_replace);
                off!(offline);
                off!(vectored);
                off!(pingresp_to_ms);
                off!(ka);
                off!(sei);
                off!(c_rm);
                off!(c_tam);
                off!(c_mps);
                off!(s_rm);
                off!(s_tam);
                off!(s_mps);
                off!(s_ska);
                off!(s_sei);
                if cfg.role == Role::Any {
                    let mut c = cfg.clone();
                    c.role = if cfg.as_client { Role::Client } else { Role::Server };
                    push(c);
                }
                if cfg.ver == Ver::Undet {
                    let mut c = cfg.clone();
                    c.ver = if cfg.wire_v == 4 { Ver::V4 } else { Ver::V5 };
                    push(c);
                }
                // simpler ops
                for (i, o) in ops.iter().enumerate() {
                    let simpler: Option<Op> = match o {
                        Op::Pub { qos, topic, alias, pad, fail } => {
                            if *fail {
                                Some(Op::Pub { qos: *qos, topic: *topic, alias: *alias, pad: *pad, fail: false })
                            } else if *pad != 0 {
                                Some(Op::Pub { qos: *qos, topic: *topic, alias: *alias, pad: 0, fail: false })
                            } else if *alias != 0 {
                                Some(Op::Pub { qos: *qos, topic: *topic, alias: 0, pad: 0, fail: false })
                            } else if *qos == 2 {
                                Some(Op::Pub { qos: 1, topic: *topic, alias: 0, pad: 0, fail: false })
                            } else if *topic != 0 {
                                Some(Op::Pub { qos: *qos, topic: 0, alias: 0, pad: 0, fail: false })
                            } else {
                                None
                            }
                        }
                        Op::PeerPub { qos, id, dup, topic, alias, pad } => {
                            if *pad != 0 {
                                Some(Op::PeerPub { qos: *qos, id: *id, dup: *dup, topic: *topic, alias: *alias, pad: 0 })
                            } else if *alias != 0 {
                                Some(Op::PeerPub { qos: *qos, id: *id, dup: *dup, topic: *topic, alias: 0, pad: 0 })
                            } else if *dup {
                                Some(Op::PeerPub { qos: *qos, id: *id, dup: false, topic: *topic, alias: 0, pad: 0 })
                            } else if *topic != 0 {
                                Some(Op::PeerPub { qos: *qos, id: *id, dup: false, topic: 0, alias: 0, pad: 0 })
                            } else {
                                None
                            }
                        }
                        Op::Close { partial } if *partial != 0 => Some(Op::Close { partial: 0 }),
                        Op::SetChunk { n } if *n != 0 => Some(Op::SetChunk { n: 0 }),
                        Op::PeerAck { nth, how, rc } if *rc != 0 => Some(Op::PeerAck { nth: *nth, how: *how, rc: 0 }),
                        Op::PeerAck { nth, how, rc } if *nth != 0 => Some(Op::PeerAck { nth: 0, how: *how, rc: *rc }),
                        _ => None,
                    };
                    if let Some(n) = simpler {
                        let mut o2 = ops.clone();
                        o2[i] = n;
                        out.push(Case::Solo { cfg: cfg.clone(), ops: o2 });
                    }
                }
                out
            }
        }
    }
}

#[derive(Default, Clone)]
pub struct Outcome {
    pub viol: Option<Violation>,
    /// deferred finding of the run (Watch::deferred)
    pub alt: Option<Violation>,
    pub stats: Stats,
    pub faults: BTreeMap<String, u64>,
    pub steps: u64,
    pub sim_ms: u64,
    /// hash of the op-kind sequence
    pub shape: u64,
    pub nontrivial: bool,
    pub log: Vec<String>,
    pub states: Vec<u64>,
}

fn h64<T: Hash>(t: &T) -> u64 {
    let mut h = std::collections::hash_map::DefaultHasher::new();
    t.hash(&mut h);
    h.finish()
}

fn op_kind(o: &Op) -> u8 {
    // discriminant + the argument that changes behaviour class
    match o {
        Op::Connect { clean } => 1 + *clean as u8,
        Op::Connack { sp, rc } => 3 + *sp as u8 + 2 * (*rc != 0) as u8,
        Op::Pub { qos, alias, fail, .. } => 10 + qos + 3 * (*alias != 0) as u8 + 6 * (*fail as u8),
        Op::Sub => 30,
        Op::Unsub => 31,
        Op::Ping => 32,
        Op::Disconnect { .. } => 33,
        Op::Auth => 34,
        Op::PeerAck { how, rc, .. } => 40 + how + 4 * (*rc != 0) as u8,
        Op::AppPubrel { .. } => 50,
        Op::PeerPub { qos, dup, alias, .. } => 60 + qos + 3 * (*dup as u8) + 6 * (*alias != 0) as u8,
        Op::PeerPubrel { .. } => 80,
        Op::AppAck { err, .. } => 81 + *err as u8,
        Op::PeerSuback { wrong, .. } => 83 + *wrong as u8,
        Op::PeerSimple { kind } => 90 + kind,
        Op::AppAnswer => 110,
        Op::Erase { .. } => 111,
        Op::Acquire => 112,
        Op::Register { .. } => 113,
        Op::Release { .. } => 114,
        Op::ReleaseRaw { .. } => 115,
        Op::Timer { k } => 116 + k.ix() as u8,
        Op::SetPing { .. } => 120,
        Op::SetPingresp { ms } => 162 + (*ms != 0) as u8,
        Op::SetAuto { which, on } => 164 + 2 * which + *on as u8,
        Op::Coalesce { qos, .. } => 172 + qos,
        Op::SendUnowned { kind } => 176 + kind,
        Op::ConnackAgain { .. } => 181,
        Op::SubFailContinue { unsub } => 182 + *unsub as u8,
        Op::AppAckBig { .. } => 184,
        Op::AppAckSoft { .. } => 185,
        Op::PeerPubAfterClose { qos, .. } => 186 + qos,
        Op::PartialConnectLoss { .. } => 190,
        Op::PartialThenTimer { k, .. } => 191 + k.ix() as u8,
        Op::Advance { .. } => 121,
        Op::Close { partial } => 122 + (*partial != 0) as u8,
        Op::Crash => 124,
        Op::PeerRaw { .. } => 125,
        Op::SetChunk { .. } => 126,
        Op::Drain => 127,
        Op::Forget => 128,
        Op::SetAlt { on } => 129 + *on as u8,
        Op::SetTight { on } => 131 + *on as u8,
        Op::AppPubrelBig { .. } => 133,
        Op::AppPubrelRc { .. } => 195,
        Op::SwapSide => 137,
        Op::ExhaustIds => 161,
        Op::ConnectAgain => 159,
        Op::DisconnectBig => 160,
        Op::PubFailContinue { qos, .. } => 138 + qos,
        Op::PeerPubrelRc { rc, .. } => 141 + (*rc != 0) as u8,
        Op::PeerAfterClose { kind } => 143 + kind,
        Op::Regulate { alias, .. } => 134 + (*alias != 0) as u8 + (*alias & 0x80 != 0) as u8,
    }
}

fn solo_state_hash(s: &Solo, last: u8) -> u64 {
    let m = &s.w.m;
    h64(&(m.st as u8, m.out.len().min(4), m.store.len().min(4), m.inq2.len().min(3), m.armed, m.ids.len().min(4), s.inbox.len().min(3), m.persistent, last))
}

fn solo_outcome(s: Solo, ops: &[Op], states: Vec<u64>) -> Outcome {
    let kinds: Vec<u8> = ops.iter().map(op_kind).collect();
    let faults_fired: u64 = s.faults.values().sum();
    Outcome {
        nontrivial: s.w.stats.round_trips >= 1,
        viol: s.w.viol.clone(),
        alt: s.w.deferred.clone(),
        steps: s.w.step as u64,
        sim_ms: s.now_ms,
        shape: h64(&kinds),
        faults: s.faults.iter().map(|(k, v)| (k.to_string(), *v)).collect(),
        stats: s.w.stats.clone(),
        log: s.w.log.clone(),
        states,
    }
    .with_fault_rule(faults_fired)
}

impl Outcome {
    fn with_fault_rule(self, _fired: u64) -> Outcome {
        self
    }
}

/// property-specific swarm tuning of configuration and op weights
fn tune(prop: &str, c: &mut Cfg, p: &mut GenProfile, r: &mut Rng) {
    let v5 = |c: &mut Cfg| {
        if c.wire_v != 5 {
            c.wire_v = 5;
            if c.ver == Ver::V4 {
                c.ver = Ver::V5;
            }
        }
    };
    match prop {
        "C06" => {
            p.w_pub = 40;
            p.w_peerpub = 4;
            p.w_erase = 6;
            if c.wire_v == 5 && c.sei.is_none() && r.chance(1, 2) {
                c.sei = Some(100);
            }
        }
        "C07" => {
            p.w_peerpub = 50;
            p.w_pub = 6;
            p.w_appack = 30;
            c.f_dup = true;
        }
        "C05" => {
            // boundary announcements that only a peer can make
            if r.chance(1, 4) {
                c.c_tam = Some(0);
            }
            if r.chance(1, 4) {
                c.s_tam = Some(0);
            }
        }
        "C08" | "C20" => {
            p.w_ids = 20;
            p.w_sub = 14;
        }
        "C12" => {
            v5(c);
            if c.c_rm.is_none() && r.chance(3, 4) {
                c.c_rm = Some(*r.pick(&[1u16, 2, 3]));
            }
            if c.s_rm.is_none() && r.chance(3, 4) {
                c.s_rm = Some(*r.pick(&[1u16, 2, 3]));
            }
            p.w_pub = 40;
            p.w_peerpub = 30;
        }
        "C13" => {
            v5(c);
            if r.chance(3, 4) {
                c.c_tam = Some(*r.pick(&[1u16, 2, 3]));
                c.s_tam = Some(*r.pick(&[1u16, 2, 3]));
            }
            if r.chance(1, 2) {
                c.auto_map = r.chance(1, 2);
                c.auto_replace = !c.auto_map;
            }
            p.w_pub = 50;
            p.w_peerpub = 25;
            p.w_misc = 10;
        }
        "C14" => {
            v5(c);
            // limits around the sizes of the packets of the workload (17..45 bytes)
            let l = [None, Some(12u32), Some(16), Some(18), Some(19), Some(20), Some(22), Some(24), Some(30), Some(40)];
            c.c_mps = *r.pick(&l);
            c.s_mps = *r.pick(&l);
            if r.chance(1, 4) {
                // around the 127/128 Remaining Length boundary: three more bytes of property cost four
                let b = [Some(129u32), Some(130), Some(131), Some(132), Some(133)];
                c.c_mps = *r.pick(&b);
                c.s_mps = *r.pick(&b);
                if r.chance(1, 2) {
                    c.auto_map = true;
                    c.auto_replace = false;
                    c.c_tam = Some(*r.pick(&[1u16, 2, 3]));
                    c.s_tam = Some(*r.pick(&[1u16, 2, 3]));
                }
            }
            if c.as_client && r.chance(1, 12) {
                // a broker that accepts nothing larger than a PINGREQ
                c.s_mps = Some(*r.pick(&[2u32, 3]));
                c.ka = *r.pick(&[5u16, 10]);
                c.pingresp_to_ms = 3000;
                p.w_timer = 12;
                p.w_ping = 10;
            }
            p.w_pub = 45;
            p.w_peerpub = 25;
            p.w_disc = 3;
        }
        "C19" => {
            if c.wire_v == 5 && r.chance(1, 2) {
                let l = [None, Some(16u32), Some(20), Some(40)];
                c.c_mps = *r.pick(&l);
                c.s_mps = *r.pick(&l);
            }
            if c.wire_v == 5 && c.as_client && r.chance(1, 10) {
                // a broker that accepts nothing larger than a PINGREQ: not even the library's own
                // DISCONNECT fits
                c.s_mps = Some(*r.pick(&[2u32, 3]));
            }
            c.ka = *r.pick(&[0u16, 5, 10, 60]);
            c.pingresp_to_ms = *r.pick(&[0u64, 3000]);
            p.w_timer = 15;
            p.w_disc = 4;
        }
        "C15" => {
            if c.wire_v == 5 && r.chance(1, 3) {
                let l = [None, Some(16u32), Some(24), Some(40)];
                c.c_mps = *r.pick(&l);
                c.s_mps = *r.pick(&l);
            }
            c.ka = *r.pick(&[0u16, 5, 10, 60, 21846, 65535]);
            c.pingresp_to_ms = *r.pick(&[0u64, 3000, 5000]);
            p.w_timer = 25;
            p.w_ping = 12;
            p.w_misc = 14;
        }
        _ => {}
    }
}

fn alloc_outcome(c: &crate::alloc::ACase) -> Outcome {
    let o = crate::alloc::run(c);
    let kinds: Vec<u8> = c.ops.iter().map(|op| match op {
        crate::alloc::AOp::Allocate => 0u8,
        crate::alloc::AOp::Use(_) => 1,
        crate::alloc::AOp::DeallocNth(_) | crate::alloc::AOp::Dealloc(_) => 2,
        crate::alloc::AOp::Clear => 3,
        crate::alloc::AOp::IsUsed(_) => 4,
        crate::alloc::AOp::FirstVacant => 5,
        crate::alloc::AOp::Count => 6,
    }).collect();
    let mut out = Outcome { viol: o.viol, steps: o.steps, shape: h64(&(c.wide, c.lo, c.hi, &c.ops)), nontrivial: c.ops.len() >= 2, ..Default::default() };
    let _ = kinds;
    out.stats.calls = o.steps;
    if o.filled {
        out.stats.hit("c20_range_exhausted");
    }
    if o.max_intervals >= 3 {
        out.stats.hit("c20_three_or_more_intervals");
    }
    if c.hi >= 4294967295 {
        out.stats.hit("c20_u32_extreme_range");
    }
    if c.lo == c.hi {
        out.stats.hit("c20_single_value_range");
    }
    out
}

pub fn generate(prop: &str, rng: &mut Rng, tier: Tier, run: u64) -> (Case, Outcome) {
    let (c, o) = generate_inner(prop, rng, tier, run);
    (c, settle(prop, o))
}

/// A run may carry a deferred finding next to (or instead of) the one that ended it: the
/// verdict is the one that concerns the property under check.
fn settle(prop: &str, mut o: Outcome) -> Outcome {
    if let Some(alt) = o.alt.take() {
        let own = o.viol.as_ref().map_or(false, |v| v.props.iter().any(|p| *p == prop));
        if !own && (o.viol.is_none() || alt.props.iter().any(|p| *p == prop)) {
            o.viol = Some(alt);
        }
    }
    o
}

fn generate_inner(prop: &str, rng: &mut Rng, tier: Tier, run: u64) -> (Case, Outcome) {
    if prop == "C20" {
        let et = crate::alloc::enum_total();
        if run < et {
            let c = crate::alloc::enum_case(run).unwrap();
            let mut o = alloc_outcome(&c);
            o.stats.hit("c20_enumerated_case");
            return (Case::Alloc { case: c }, o);
        }
        if run % 5 != 4 {
            let c = crate::alloc::gen(rng, if tier == Tier::Quick { 40 } else { 200 });
            let o = alloc_outcome(&c);
            return (Case::Alloc { case: c }, o);
        }
        // every fifth random run: the allocator inside a connection (in-situ invariant)
    }
    match prop {
        "C09" => return gen_c09(rng, tier, run),
        "C16" => return gen_c16(rng, tier, run),
        "C10" => return gen_c10(rng, tier, run),
        "C01" => return gen_c01(rng, tier, run),
        "C11" => return gen_c11(rng, tier, run),
        "C17" => return gen_c17(rng, tier, run),
        _ => {}
    }
    if prop == "C15" && run % 8 == 7 {
        // bounded liveness under faithful timing: two real endpoints, keep-alive on, no faults
        let mut cfg = crate::pair::gen_pcfg(rng, false);
        cfg.ka = *rng.pick(&[5u16, 10, 60]);
        cfg.pingresp_to_ms = *rng.pick(&[0u64, cfg.ka as u64 * 1000]);
        cfg.c_mps = None;
        cfg.s_mps = None;
        cfg.fresh_server = false;
        let mut p = crate::pair::Pair::new(cfg.clone());
        let ops = crate::pair::live_run(&mut p, rng);
        let mut o = pair_outcome(p, &ops);
        o.nontrivial = true;
        o.stats.hit("c15_keepalive_liveness_runs");
        return (Case::Pair { cfg, ops }, o);
    }
    let faults = run % 4 != 0;
    let mut cfg = solo::gen_cfg(rng, faults);
    let mut prof = GenProfile::default();
    tune(prop, &mut cfg, &mut prof, rng);
    cfg.known_triggers = run % 10 == 9;
    let maxlen = if tier == Tier::Quick { 60 } else { 200 };
    let len = if rng.chance(1, 3) { rng.range(3, 12) } else { rng.range(5, maxlen) };
    let mut s = Solo::new(cfg.clone());
    let mut ops = vec![];
    let mut states = vec![];
    if prop == "C08" && run % 20000 == 0 && !cfg.pid32 {
        // all 65535 identifiers in use at once, somewhere inside an ordinary session
        let pre = rng.range(0, 6);
        for _ in 0..pre {
            let op = solo::gen_op(&s, rng, &prof);
            ops.push(op.clone());
            s.exec(&op);
        }
        ops.push(Op::ExhaustIds);
        s.exec(&Op::ExhaustIds);
    }
    // C05: adversarial peer traffic at PRNG points of an otherwise regular session
    // (C15 / C19 speak about every event list, those of the error paths included)
    let adversary = (prop == "C05" && run % 3 != 0) || ((prop == "C19" || prop == "C15" || prop == "C14") && run % 4 == 1);
    for _ in 0..len {
        let mut op = solo::gen_op(&s, rng, &prof);
        if adversary && s.w.m.st != St::Disc && !s.w.want_close && rng.chance(1, 6) {
            op = Op::PeerRaw { bytes: solo::gen_adversarial(&s, rng) };
        }
        ops.push(op.clone());
        s.exec(&op);
        states.push(solo_state_hash(&s, op_kind(&op)));
        if s.w.failed() {
            break;
        }
    }
    if !s.w.failed() {
        ops.push(Op::Drain);
        s.exec(&Op::Drain);
    }
    let o = solo_outcome(s, &ops, states);
    (Case::Solo { cfg, ops }, o)
}

fn merge_solo_stats(o: &mut Outcome, s: &Solo) {
    o.stats.merge(&s.w.stats);
    for (k, v) in &s.faults {
        *o.faults.entry(k.to_string()).or_insert(0) += v;
    }
    o.steps += s.w.step as u64;
    o.sim_ms += s.now_ms;
}

/// draw a history with the solo generator (no Drain at the end)
fn gen_history(cfg: &Cfg, prof: &GenProfile, rng: &mut Rng, len: u64, adversary: bool) -> (Solo, Vec<Op>) {
    gen_history2(cfg, prof, rng, len, adversary, false)
}

fn gen_history2(cfg: &Cfg, prof: &GenProfile, rng: &mut Rng, len: u64, adversary: bool, read_past_close: bool) -> (Solo, Vec<Op>) {
    let mut s = Solo::new(cfg.clone());
    s.w.read_past_close = read_past_close;
    let mut ops = vec![];
    for _ in 0..len {
        let mut op = solo::gen_op(&s, rng, prof);
        if adversary && s.w.m.st != St::Disc && !s.w.want_close && rng.chance(1, 8) {
            op = Op::PeerRaw { bytes: solo::gen_adversarial(&s, rng) };
        }
        ops.push(op.clone());
        s.exec(&op);
        if s.w.failed() {
            break;
        }
    }
    (s, ops)
}

fn gen_c09(rng: &mut Rng, tier: Tier, run: u64) -> (Case, Outcome) {
    let mut cfg = solo::gen_cfg(rng, run % 3 != 0);
    cfg.f_chunk = false;
    cfg.f_crash = false;
    let mut prof = GenProfile::default();
    prof.w_peerpub = 40;
    prof.w_peerack = 40;
    prof.w_pub = 20;
    prof.w_misc = 2;
    let len = rng.range(4, if tier == Tier::Quick { 30 } else { 60 });
    let (_, ops) = gen_history2(&cfg, &prof, rng, len, run % 2 == 0, true);
    let a = twin::run_reference(&cfg, &ops);
    let mut o = Outcome { shape: h64(&ops.iter().map(op_kind).collect::<Vec<_>>()), ..Default::default() };
    merge_solo_stats(&mut o, &a);
    if a.w.stats.probes.get("c09_bad_remaining_length").is_some() && a.w.stats.frames > 0 {
        o.stats.hit("c09_frames_after_overlong_length");
    }
    o.log = a.w.log.clone();
    if a.w.failed() {
        // the reference run itself trips a monitor: report under that monitor's properties
        // (kept as a Chunk case: its replay reads past close requests like this run did)
        o.viol = a.w.viol.clone();
        return (Case::Chunk { cfg, ops, burst: 0, cuts: vec![] }, o);
    }
    let bl = twin::bursts(a.w.calls.as_ref().unwrap());
    if bl.is_empty() {
        return (Case::Chunk { cfg, ops, burst: 0, cuts: vec![] }, o);
    }
    o.nontrivial = true;
    // enumerate: one burst per history (round robin), every single cut and every pair of cuts
    // for short bursts, the all-single-bytes partition, and seeded partitions
    let bi = (run as usize) % bl.len();
    let n = bl[bi];
    let mut parts: Vec<Vec<usize>> = vec![];
    let full = n <= 40;
    for i in 1..n {
        parts.push(vec![i]);
    }
    if full {
        for i in 1..n {
            for j in i + 1..n {
                parts.push(vec![i, j]);
            }
        }
        o.stats.hit("c09_bursts_enumerated_completely_up_to_2_cuts");
    } else {
        for _ in 0..64 {
            let i = rng.range(1, n as u64 - 1) as usize;
            let j = rng.range(1, n as u64 - 1) as usize;
            parts.push(vec![i.min(j), i.max(j)]);
        }
    }
    parts.push((1..n).collect());
    for _ in 0..8 {
        let k = rng.range(1, 6);
        let mut c: Vec<usize> = (0..k).map(|_| rng.range(1, n.max(2) as u64 - 1) as usize).collect();
        c.sort_unstable();
        parts.push(c);
    }
    // the other bursts: seeded partitions
    for (b, len) in bl.iter().enumerate() {
        if b != bi && *len > 1 {
            let i = rng.range(1, *len as u64 - 1) as usize;
            if let Some(v) = twin::chunk_compare(&cfg, &a, b, &[i]) {
                o.viol = Some(v);
                return (Case::Chunk { cfg, ops, burst: b, cuts: vec![i] }, o);
            }
            *o.stats.probes.entry("c09_partitions_checked").or_insert(0) += 1;
        }
    }
    if bl.len() > 1 {
        o.stats.hit("c09_multi_burst_history");
    }
    for cuts in parts {
        *o.stats.probes.entry("c09_partitions_checked").or_insert(0) += 1;
        *o.faults.entry("fragmentation".into()).or_insert(0) += 1;
        if let Some(v) = twin::chunk_compare(&cfg, &a, bi, &cuts) {
            o.viol = Some(v);
            return (Case::Chunk { cfg, ops, burst: bi, cuts }, o);
        }
    }
    (Case::Chunk { cfg, ops, burst: bi, cuts: vec![] }, o)
}

/// protocol level of a raw CONNECT frame (None if the bytes are not one)
fn connect_level(b: &[u8]) -> Option<u8> {
    if b.first() != Some(&0x10) {
        return None;
    }
    let mut i = 1;
    while i < b.len() && i <= 4 && b[i] & 0x80 != 0 {
        i += 1;
    }
    i += 1;
    let n = ((*b.get(i)? as usize) << 8) | *b.get(i + 1)? as usize;
    b.get(i + 2 + n).copied()
}

fn fork_outcome(kind: ForkKind, cfg: &Cfg, ops: &[Op], cont: &[Op], mangle: ExportMangle) -> Outcome {
    let (cfg_a, cfg_b, head_a, head_b): (Cfg, Cfg, Vec<Op>, Vec<Op>) = match kind {
        ForkKind::Crash => {
            // "... before reconnecting with the session present": the continuation starts with that handshake
            if !(matches!(cont.first(), Some(Op::Connect { clean: false })) && matches!(cont.get(1), Some(Op::Connack { rc: 0, .. }))) {
                return Outcome::default();
            }
            let mut ha = ops.to_vec();
            ha.push(Op::Forget);
            (cfg.clone(), cfg.clone(), ha, ops.to_vec())
        }
        ForkKind::Fresh => {
            // the comparison is about a NEW session: the script starts with its handshake
            let skip = cont.iter().take_while(|o| matches!(o, Op::SetAlt { .. } | Op::SwapSide)).count();
            if !(matches!(cont.get(skip), Some(Op::Connect { .. })) && matches!(cont.get(skip + 1), Some(Op::Connack { sp: false, rc: 0 }))) {
                return Outcome::default();
            }
            let mut ha = ops.to_vec();
            ha.push(Op::Close { partial: 0 });
            (cfg.clone(), cfg.clone(), ha, vec![])
        }
        ForkKind::Version if !ops.is_empty() => {
            // both servers take over a session exported by a crashed predecessor before they see
            // their first CONNECT; the undetermined one must go on like the fixed one
            if !(matches!(cont.first(), Some(Op::Connect { clean: false })) && matches!(cont.get(1), Some(Op::Connack { rc: 0, .. }))) {
                return Outcome::default();
            }
            let mut ca = cfg.clone();
            ca.ver = Ver::Undet;
            let mut cb = cfg.clone();
            cb.ver = if cfg.wire_v == 4 { Ver::V4 } else { Ver::V5 };
            (ca, cb, ops.to_vec(), ops.to_vec())
        }
        ForkKind::Version => {
            // "adopts v3.1.1 or v5.0 from the first CONNECT ... and from then on behaves exactly
            // like a server created with that version": the script starts with a CONNECT of the
            // version the fixed twin was created with (a shrunken script that lost it compares nothing)
            let starts_with_connect = match cont.first() {
                Some(Op::Connect { .. }) => true,
                Some(Op::PeerRaw { bytes }) => connect_level(bytes) == Some(cfg.wire_v),
                _ => false,
            };
            if !starts_with_connect {
                return Outcome::default();
            }
            let mut ca = cfg.clone();
            ca.ver = Ver::Undet;
            let mut cb = cfg.clone();
            cb.ver = if cfg.wire_v == 4 { Ver::V4 } else { Ver::V5 };
            (ca, cb, vec![], vec![])
        }
    };
    let r = twin::fork(kind, &cfg_a, &cfg_b, &head_a, &head_b, cont, mangle);
    let mut o = Outcome { viol: r.viol.clone(), ..Default::default() };
    merge_solo_stats(&mut o, &r.a);
    merge_solo_stats(&mut o, &r.b);
    o.log = r.a.w.log.iter().map(|l| format!("A {l}")).chain(r.b.w.log.iter().map(|l| format!("B {l}"))).collect();
    o
}

fn gen_c16(rng: &mut Rng, tier: Tier, run: u64) -> (Case, Outcome) {
    let mut cfg = solo::gen_cfg(rng, run % 3 != 0);
    cfg.f_crash = false;
    // sessions that persist: that is what an export is for
    if cfg.wire_v == 5 {
        cfg.sei = Some(*rng.pick(&[100u32, u32::MAX]));
        cfg.s_sei = None;
    }
    cfg.offline = rng.chance(1, 8);
    let mut prof = GenProfile::default();
    if run % 2 == 0 {
        prof.w_pub = 40;
        prof.w_peerpub = 6;
    } else {
        prof.w_peerpub = 40;
        prof.w_appack = 25;
        cfg.f_dup = true;
    }
    let len = rng.range(3, if tier == Tier::Quick { 22 } else { 40 });
    let mut s = Solo::new(cfg.clone());
    let mut ops: Vec<Op> = vec![];
    // persistent sessions only: first connect keeps the session
    let mut o = Outcome::default();
    let mut hist: Vec<Op> = vec![];
    for i in 0..len {
        let mut op = solo::gen_op(&s, rng, &prof);
        if let Op::Connect { .. } = op {
            op = Op::Connect { clean: i == 0 && rng.chance(1, 3) };
        }
        // the comparison needs the protocol model on both branches: no adversarial input here
        if matches!(op, Op::PeerAfterClose { .. } | Op::PeerPubAfterClose { .. } | Op::PeerRaw { .. }) {
            continue;
        }
        hist.push(op.clone());
        s.exec(&op);
        if s.w.failed() {
            o.viol = s.w.viol.clone();
            merge_solo_stats(&mut o, &s);
            o.log = s.w.log.clone();
            return (Case::Solo { cfg, ops: hist }, o);
        }
    }
    merge_solo_stats(&mut o, &s);
    o.shape = h64(&hist.iter().map(op_kind).collect::<Vec<_>>());
    o.nontrivial = s.w.stats.round_trips >= 1 || !s.w.m.store.is_empty();
    // every prefix is a crash point
    for k in 0..=hist.len() {
        ops = hist[..k].to_vec();
        // continuation drawn against the uncrashed branch
        let mut u = Solo::new(cfg.clone());
        for op in ops.iter() {
            u.exec(op);
        }
        u.exec(&Op::Forget);
        if u.w.failed() {
            o.viol = u.w.viol.clone();
            let mut h = ops.clone();
            h.push(Op::Forget);
            return (Case::Solo { cfg, ops: h }, o);
        }
        let stored = !u.w.m.store.is_empty();
        let handled = !u.w.m.inq2.is_empty();
        let persistent = u.w.m.persistent;
        let sp = persistent;
        let mut cprof = GenProfile::default();
        cprof.w_close = 0;
        cprof.w_crash = 0;
        cprof.w_disc = 0;
        let mut first = vec![Op::Connect { clean: false }, Op::Connack { sp, rc: 0 }];
        // duplicates of QoS2 publishes notified before the crash must stay suppressed
        for id in u.peer_q2.clone() {
            first.push(Op::PeerPub { qos: 2, id, dup: true, topic: 0, alias: 0, pad: 0 });
        }
        let clen = rng.range(2, 12);
        let mut cont = twin::gen_script(&mut u, rng, &cprof, clen, &first);
        cont.push(Op::Drain);
        let mangle = if rng.chance(1, 4) { ExportMangle::DuplicateAll } else if !cfg.as_client && rng.chance(1, 3) { ExportMangle::LateRestore } else { ExportMangle::None };
        let fo = fork_outcome(ForkKind::Crash, &cfg, &ops, &cont, mangle);
        *o.stats.probes.entry("c16_crash_points").or_insert(0) += 1;
        *o.faults.entry("crash_restart".into()).or_insert(0) += 1;
        if stored {
            o.stats.hit("c16_crash_with_stored_packets");
        }
        if handled {
            o.stats.hit("c16_crash_with_handled_qos2");
        }
        if mangle == ExportMangle::LateRestore {
            o.stats.hit("c16_restore_after_connect");
        } else if mangle != ExportMangle::None {
            o.stats.hit("c16_malformed_export_duplicates");
        }
        o.steps += fo.steps;
        if fo.viol.is_some() {
            o.viol = fo.viol;
            o.log = fo.log;
            return (Case::Fork { kind: ForkKind::Crash, cfg, ops, cont, mangle }, o);
        }
    }
    (Case::Fork { kind: ForkKind::Crash, cfg, ops: hist, cont: vec![], mangle: ExportMangle::None }, o)
}

/// ops whose effect does not depend on the harness's model of the session
fn blind_script(cfg: &Cfg, rng: &mut Rng, len: u64) -> Vec<Op> {
    let mut v = vec![];
    let v5 = cfg.wire_v == 5;
    for _ in 0..len {
        v.push(match rng.below(14) {
            0 | 1 => Op::Pub { qos: rng.below(3) as u8, topic: rng.below(3) as u8, alias: if v5 && rng.chance(1, 3) { *rng.pick(&[1u8, 0x81, 2]) } else { 0 }, pad: 0, fail: false },
            2 | 3 => Op::PeerPub { qos: rng.below(3) as u8, id: rng.range(1, 3) as u32, dup: rng.chance(1, 3), topic: rng.below(3) as u8, alias: if v5 && rng.chance(1, 3) { *rng.pick(&[1u8, 0x81, 0x82]) } else { 0 }, pad: 0 },
            4 => Op::PeerPubrel { id: rng.range(1, 3) as u32 },
            5 => Op::AppAck { nth: 0, err: false },
            6 => {
                if cfg.as_client { Op::Ping } else { Op::PeerSimple { kind: crate::wire::PINGREQ } }
            }
            7 => {
                if cfg.as_client { Op::Sub } else { Op::PeerSimple { kind: crate::wire::SUBSCRIBE } }
            }
            8 => Op::Acquire,
            9 => Op::Timer { k: *rng.pick(&Tk::ALL) },
            10 => Op::AppAnswer,
            11 => Op::Release { nth: 0 },
            12 => Op::Advance { ms: rng.range(1, 4000) },
            _ => Op::PeerPub { qos: 2, id: rng.range(1, 2) as u32, dup: false, topic: 0, alias: 0, pad: 0 },
        });
    }
    v
}

fn gen_c10(rng: &mut Rng, tier: Tier, run: u64) -> (Case, Outcome) {
    let mut cfg = solo::gen_cfg(rng, true);
    cfg.f_crash = false;
    let prof = GenProfile::default();
    let adversary = run % 3 == 0;
    let len = rng.range(2, if tier == Tier::Quick { 30 } else { 80 });
    let (s, ops) = gen_history(&cfg, &prof, rng, len, adversary);
    let mut o = Outcome { shape: h64(&ops.iter().map(op_kind).collect::<Vec<_>>()), ..Default::default() };
    if s.w.failed() {
        o.viol = s.w.viol.clone();
        merge_solo_stats(&mut o, &s);
        o.log = s.w.log.clone();
        return (Case::Solo { cfg, ops }, o);
    }
    o.nontrivial = s.w.stats.frames >= 2;
    if s.w.lenient {
        o.stats.hit("c10_history_with_adversarial_traffic");
    }
    if s.w.rx_pending() > 0 {
        o.stats.hit("c10_history_ends_with_partial_frame");
    }
    if s.w.m.armed.iter().any(|a| *a) {
        o.stats.hit("c10_history_ends_with_armed_timer");
    }
    if !s.w.m.subs.is_empty() {
        o.stats.hit("c10_history_ends_with_pending_subscribe");
    }
    if !s.w.m.store.is_empty() {
        o.stats.hit("c10_history_ends_with_stored_packets");
    }
    // new session: clean start, or (client) session not present
    let mut cont: Vec<Op> = vec![Op::Connect { clean: true }, Op::Connack { sp: false, rc: 0 }];
    if rng.chance(1, 3) {
        cont = vec![Op::Connect { clean: false }, Op::Connack { sp: false, rc: 0 }];
        o.stats.hit("c10_new_session_by_session_not_present");
    }
    if cfg.role == Role::Any && cfg.ver != Ver::Undet && rng.chance(1, 2) {
        // the reused object now plays the other side of the protocol
        cont.insert(0, Op::SwapSide);
        o.stats.hit("c10_any_role_swaps_side");
    }
    if rng.chance(1, 3) {
        // the new connection announces nothing: whatever the old one negotiated must be gone
        cont.insert(0, Op::SetAlt { on: true });
        o.stats.hit("c10_new_connection_without_properties");
    }
    let sl = rng.range(3, 16);
    cont.extend(blind_script(&cfg, rng, sl));
    let fo = fork_outcome(ForkKind::Fresh, &cfg, &ops, &cont, ExportMangle::None);
    merge_o(&mut o, &fo);
    if fo.viol.is_some() {
        o.viol = fo.viol.clone();
        o.log = fo.log.clone();
    }
    (Case::Fork { kind: ForkKind::Fresh, cfg, ops, cont, mangle: ExportMangle::None }, o)
}

fn cell_outcome(prop: &str, index: usize) -> Outcome {
    use crate::matrix;
    let mut o = Outcome { nontrivial: true, shape: h64(&(prop, index)), ..Default::default() };
    if prop == "C11" {
        let cells = matrix::c11_cells();
        if index == cells.len() {
            o.viol = matrix::check_compile_time();
            o.stats.hit("c11_compile_time_table_checked");
            return o;
        }
        let r = matrix::run_c11_cell(&cells[index]);
        o.stats.merge(&r.stats);
        o.viol = r.viol;
        o.log = r.log;
        o.log.push(r.desc);
        o.steps = r.steps;
        *o.stats.probes.entry("c11_matrix_cells").or_insert(0) += 1;
        if r.refused {
            *o.stats.probes.entry("c11_matrix_cells_refused").or_insert(0) += 1;
        }
    } else {
        let cells = matrix::c17_cells();
        let r = matrix::run_c17_cell(&cells[index]);
        o.stats.merge(&r.stats);
        o.viol = r.viol;
        o.log = r.log;
        o.log.push(r.desc);
        o.steps = r.steps;
        *o.stats.probes.entry("c17_matrix_cells").or_insert(0) += 1;
        if r.refused {
            *o.stats.probes.entry("c17_matrix_cells_rejected").or_insert(0) += 1;
        }
    }
    o
}

fn inject_outcome(cfg: &Cfg, ops: &[Op], at: usize, pkt: &crate::wire::Pkt) -> Outcome {
    let mut a = Solo::new(cfg.clone());
    let mut b = Solo::new(cfg.clone());
    a.w.trace = Some(vec![]);
    b.w.trace = Some(vec![]);
    let mut o = Outcome::default();
    let mut injected = false;
    for (i, op) in ops.iter().enumerate() {
        if i == at && !b.w.failed() {
            // only a call that the gate table refuses is injected
            if !b.w.lenient && matches!(b.w.expect_send(pkt), Expect::Refuse(_)) {
                let n = b.w.trace.as_ref().unwrap().len();
                let evs = b.w.send(pkt);
                b.w.trace.as_mut().unwrap().truncate(n);
                injected = true;
                if evs.iter().any(|e| matches!(e, Ev::Released(_))) {
                    // the packet's own id became free: outside "as if not made" (allowed by the statement)
                    injected = false;
                    break;
                }
            } else {
                break;
            }
        }
        a.exec(op);
        b.exec(op);
        if a.w.failed() || b.w.failed() {
            break;
        }
    }
    merge_solo_stats(&mut o, &a);
    o.log = b.w.log.clone();
    if !injected {
        // the plain history itself may have tripped a monitor (e.g. an allowed send refused)
        o.viol = a.w.viol.clone();
        return o;
    }
    o.nontrivial = true;
    o.stats.hit("c11_refused_call_injected");
    *o.faults.entry("refused_send_injected".into()).or_insert(0) += 1;
    let ta = a.w.trace.clone().unwrap();
    let tb = b.w.trace.clone().unwrap();
    if let Some(v) = &b.w.viol {
        if !a.w.failed() {
            // the branch with the injected call tripped a monitor the plain branch did not
            let mut v = v.clone();
            if v.props.is_empty() {
                o.viol = Some(v);
                return o;
            }
            if !v.props.contains(&"C11") {
                v.props.push("C11");
            }
            v.class = format!("after-refused-send/{}", v.class);
            o.viol = Some(v);
            return o;
        }
    }
    for i in 0..ta.len().max(tb.len()) {
        if ta.get(i) != tb.get(i) {
            let f = |t: Option<&(String, Vec<Ev>)>| t.map(|(w, e)| format!("{w} -> {}", evs_short(e))).unwrap_or_else(|| "<nothing>".into());
            o.viol = Some(Violation { props: vec!["C11"], class: format!("refused-send-changes-behaviour/{}", crate::wire::kind_name(pkt.kind)), msg: format!("after a refused send({}) before op {at}: call {i}: [{}] vs [{}]", pkt.short(), f(ta.get(i)), f(tb.get(i))), step: i });
            return o;
        }
    }
    if a.w.failed() || b.w.failed() {
        o.viol = a.w.viol.clone().or(b.w.viol.clone());
        return o;
    }
    if a.w.ep.state() != b.w.ep.state() {
        o.viol = Some(Violation { props: vec!["C11"], class: format!("refused-send-leaves-trace/{}", crate::wire::kind_name(pkt.kind)), msg: format!("final state differs after a refused send({}) before op {at}", pkt.short()), step: ta.len() });
    }
    o
}

fn gen_c11(rng: &mut Rng, tier: Tier, run: u64) -> (Case, Outcome) {
    let n = crate::matrix::c11_cells().len() as u64;
    if run <= n {
        return (Case::Cell { prop: "C11".into(), index: run as usize }, cell_outcome("C11", run as usize));
    }
    let cfg = solo::gen_cfg(rng, run % 2 == 0);
    let prof = GenProfile::default();
    let len = rng.range(3, if tier == Tier::Quick { 30 } else { 80 });
    let (_, mut ops) = gen_history(&cfg, &prof, rng, len, false);
    ops.push(Op::Drain);
    let at = rng.below(ops.len() as u64) as usize;
    let reps = crate::matrix::rep_packets();
    let mut pkt = rng.pick(&reps).clone();
    if pkt.id.is_none() && !matches!(pkt.kind, crate::wire::CONNECT | crate::wire::CONNACK | crate::wire::PINGREQ | crate::wire::PINGRESP | crate::wire::DISCONNECT | crate::wire::AUTH) && !(pkt.kind == crate::wire::PUBLISH && pkt.qos == 0) {
        // an id that is not in use: the refusal cannot release anything
        pkt.id = Some(*rng.pick(&[40000u32, 50000, 65000]));
    }
    let mut o = inject_outcome(&cfg, &ops, at, &pkt);
    o.shape = h64(&(ops.iter().map(op_kind).collect::<Vec<_>>(), at, pkt.kind, pkt.v));
    (Case::Inject { cfg, ops, at, pkt }, o)
}

fn gen_c17(rng: &mut Rng, tier: Tier, run: u64) -> (Case, Outcome) {
    let n = crate::matrix::c17_cells().len() as u64;
    if run < n {
        return (Case::Cell { prop: "C17".into(), index: run as usize }, cell_outcome("C17", run as usize));
    }
    // auto-detection: an undetermined server and a fixed-version server in lock-step
    let mut cfg = solo::gen_cfg(rng, run % 2 == 0);
    cfg.as_client = false;
    cfg.role = if rng.chance(1, 5) { Role::Any } else { Role::Server };
    cfg.ver = Ver::Undet;
    cfg.f_crash = false;
    let prof = GenProfile::default();
    let len = rng.range(2, if tier == Tier::Quick { 30 } else { 80 });
    let (s, mut ops) = gen_history(&cfg, &prof, rng, len, run % 3 == 0);
    let mut o = Outcome { shape: h64(&ops.iter().map(op_kind).collect::<Vec<_>>()), ..Default::default() };
    if s.w.failed() {
        o.viol = s.w.viol.clone();
        merge_solo_stats(&mut o, &s);
        o.log = s.w.log.clone();
        return (Case::Solo { cfg, ops }, o);
    }
    if !s.w.lenient {
        ops.push(Op::Drain);
    }
    // "from then on": the comparison starts with the first CONNECT
    let first = ops.iter().position(|o| matches!(o, Op::Connect { .. })).unwrap_or(ops.len());
    ops.drain(..first);
    if rng.chance(1, 4) && !ops.is_empty() {
        // the very first CONNECT has the right protocol level but does not parse
        let mut p = cfg.connect_pkt(true);
        p.client_id = "cid".into();
        let mut b = crate::wire::encode(&p, if cfg.pid32 { 4 } else { 2 });
        let cut = rng.range(1, 3) as usize;
        let n = b.len() - cut;
        b.truncate(n);
        b[1] = (n - 2) as u8;
        // ... followed, on a new transport, by a well-formed CONNECT of the other level: a server
        // that has adopted the version refuses it exactly like a fixed-version server
        let mut q = cfg.connect_pkt(true);
        q.v = if cfg.wire_v == 4 { 5 } else { 4 };
        q.props.clear();
        let other = crate::wire::encode(&q, if cfg.pid32 { 4 } else { 2 });
        ops.insert(0, Op::Close { partial: 0 });
        ops.insert(0, Op::PeerRaw { bytes: other });
        ops.insert(0, Op::Close { partial: 0 });
        ops.insert(0, Op::PeerRaw { bytes: b });
        o.stats.hit("c17_first_connect_malformed");
    }
    if ops.is_empty() {
        return (Case::Fork { kind: ForkKind::Version, cfg, ops: vec![], cont: ops, mangle: ExportMangle::None }, o);
    }
    if run % 4 == 3 && !s.w.lenient && s.w.m.persistent {
        // the history so far is the life of a crashed predecessor; its export is restored into
        // both servers before their first CONNECT
        let mut hist = ops.clone();
        hist.retain(|o| !matches!(o, Op::Drain | Op::Crash));
        let mut cont = vec![Op::Connect { clean: false }, Op::Connack { sp: true, rc: 0 }];
        for id in s.peer_q2.clone() {
            cont.push(Op::PeerPub { qos: 2, id, dup: true, topic: 0, alias: 0, pad: 0 });
        }
        cont.push(Op::Drain);
        let fo = fork_outcome(ForkKind::Version, &cfg, &hist, &cont, ExportMangle::None);
        merge_o(&mut o, &fo);
        o.nontrivial = true;
        o.stats.hit("c17_version_twin_restored_session");
        if fo.viol.is_some() {
            o.viol = fo.viol.clone();
            o.log = fo.log.clone();
        }
        return (Case::Fork { kind: ForkKind::Version, cfg, ops: hist, cont, mangle: ExportMangle::None }, o);
    }
    o.nontrivial = s.w.stats.frames >= 2;
    let fo = fork_outcome(ForkKind::Version, &cfg, &[], &ops, ExportMangle::None);
    merge_o(&mut o, &fo);
    o.stats.hit("c17_version_twin_runs");
    if fo.viol.is_some() {
        o.viol = fo.viol.clone();
        o.log = fo.log.clone();
    }
    (Case::Fork { kind: ForkKind::Version, cfg, ops: vec![], cont: ops, mangle: ExportMangle::None }, o)
}

fn pair_outcome(p: crate::pair::Pair, ops: &[crate::pair::POp]) -> Outcome {
    let kinds: Vec<u8> = ops.iter().map(crate::pair::pop_kind).collect();
    let mut o = Outcome { viol: p.violation(), shape: h64(&kinds), steps: p.steps + p.ends[0].w.step as u64 + p.ends[1].w.step as u64, sim_ms: p.now_ms, ..Default::default() };
    o.stats.merge(&p.stats);
    o.stats.merge(&p.ends[0].w.stats);
    o.stats.merge(&p.ends[1].w.stats);
    o.nontrivial = o.stats.round_trips >= 1;
    for (k, v) in &p.faults {
        *o.faults.entry(k.to_string()).or_insert(0) += v;
    }
    // interleave the two endpoint logs by step order is not needed: both are printed
    o.log = p.ends[0].w.log.iter().cloned().chain(p.ends[1].w.log.iter().cloned()).collect();
    o
}

fn gen_c01(rng: &mut Rng, tier: Tier, run: u64) -> (Case, Outcome) {
    let cfg = crate::pair::gen_pcfg(rng, run % 4 != 0);
    let maxlen = if tier == Tier::Quick { 80 } else { 250 };
    let len = if rng.chance(1, 4) { rng.range(4, 16) } else { rng.range(8, maxlen) };
    let mut p = crate::pair::Pair::new(cfg.clone());
    let mut ops = vec![];
    let mut states = vec![];
    for _ in 0..len {
        let op = crate::pair::gen_pop(&p, rng);
        ops.push(op.clone());
        p.exec(&op);
        states.push(h64(&(p.ends[0].w.m.st as u8, p.ends[1].w.m.st as u8, p.ends[0].w.m.out.len().min(3), p.ends[1].w.m.out.len().min(3), p.ends[0].w.m.store.len().min(3), p.ends[1].w.m.store.len().min(3), p.ends[0].w.m.inq2.len().min(2), p.ends[1].w.m.inq2.len().min(2), p.up, (p.pipe[0].len().min(1), p.pipe[1].len().min(1)), crate::pair::pop_kind(&op))));
        if p.failed() {
            break;
        }
    }
    if !p.failed() {
        ops.push(crate::pair::POp::Quiesce);
        p.exec(&crate::pair::POp::Quiesce);
    }
    let mut o = pair_outcome(p, &ops);
    o.states = states;
    (Case::Pair { cfg, ops }, o)
}

fn merge_o(o: &mut Outcome, f: &Outcome) {
    o.stats.merge(&f.stats);
    for (k, v) in &f.faults {
        *o.faults.entry(k.clone()).or_insert(0) += v;
    }
    o.steps += f.steps;
    o.sim_ms += f.sim_ms;
}

pub fn replay(prop: &str, case: &Case) -> Outcome {
    settle(prop, replay_inner(case))
}

fn replay_inner(case: &Case) -> Outcome {
    match case {
        Case::Chunk { cfg, ops, burst, cuts } => {
            let a = twin::run_reference(cfg, ops);
            let mut o = Outcome::default();
            merge_solo_stats(&mut o, &a);
            o.log = a.w.log.clone();
            if a.w.failed() {
                o.viol = a.w.viol.clone();
                return o;
            }
            o.viol = twin::chunk_compare(cfg, &a, *burst, cuts);
            o
        }
        Case::Fork { kind, cfg, ops, cont, mangle } => fork_outcome(*kind, cfg, ops, cont, *mangle),
        Case::Cell { prop, index } => cell_outcome(prop, *index),
        Case::Pair { cfg, ops } => {
            let mut p = crate::pair::Pair::new(cfg.clone());
            for op in ops {
                p.exec(op);
                if p.failed() {
                    break;
                }
            }
            pair_outcome(p, ops)
        }
        Case::Inject { cfg, ops, at, pkt } => inject_outcome(cfg, ops, *at, pkt),
        Case::Alloc { case } => alloc_outcome(case),
        Case::Solo { cfg, ops } => {
            let mut s = Solo::new(cfg.clone());
            for op in ops {
                s.exec(op);
                if s.w.failed() {
                    break;
                }
            }
            solo_outcome(s, ops, vec![])
        }
    }
}

pub fn components() -> (Vec<&'static str>, Vec<&'static str>) {
    (
        vec!["GenericConnection (core.rs)", "PacketBuilder", "GenericStore", "PacketIdManager", "ValueAllocator", "TopicAliasSend", "TopicAliasRecv", "packet builders/encoders/parsers touched by the traffic", "Cursor"],
        vec!["transport (byte pipes, chunking, loss)", "clock and timer wheel", "application stub", "scripted peer with the harness's own wire codec", "persistence medium (exported session)", "scheduler"],
    )
}
