//! Scenarios: how a run for property P is generated (adaptive, PRNG driven) and replayed
//! (from a recorded case, no PRNG).

use crate::ep::*;
use crate::model::*;
use crate::rng::Rng;
use crate::solo::{self, Cfg, GenProfile, Op, Solo};
use serde::{Deserialize, Serialize};
use std::collections::BTreeMap;
use std::hash::{Hash, Hasher};

#[derive(Clone, Copy, Debug, PartialEq, Eq)]
pub enum Tier {
    Quick,
    Thorough,
}

#[derive(Serialize, Deserialize, Clone, Debug, PartialEq)]
#[serde(tag = "driver")]
pub enum Case {
    Solo { cfg: Cfg, ops: Vec<Op> },
}

impl Case {
    pub fn len(&self) -> usize {
        match self {
            Case::Solo { ops, .. } => ops.len(),
        }
    }
    /// the case with only the ops whose index is in `keep`
    pub fn subset(&self, keep: &[bool]) -> Case {
        match self {
            Case::Solo { cfg, ops } => Case::Solo { cfg: cfg.clone(), ops: ops.iter().zip(keep).filter(|(_, k)| **k).map(|(o, _)| o.clone()).collect() },
        }
    }
    pub fn simpler_variants(&self) -> Vec<Case> {
        match self {
            Case::Solo { cfg, ops } => {
                let mut out = vec![];
                let mut push = |c: Cfg| {
                    if c != *cfg {
                        out.push(Case::Solo { cfg: c, ops: ops.clone() })
                    }
                };
                macro_rules! off {
                    ($f:ident) => {{
                        let mut c = cfg.clone();
                        c.$f = Default::default();
                        push(c);
                    }};
                }
                off!(pid32);
                off!(auto_pub);
                off!(auto_ping);
                off!(auto_map);
                off!(auto_replace);
                off!(offline);
                off!(vectored);
                off!(pingresp_to_ms);
                off!(ka);
                off!(sei);
                off!(c_rm);
                off!(c_tam);
                off!(c_mps);
                off!(s_rm);
                off!(s_tam);
                off!(s_mps);
                off!(s_ska);
                off!(s_sei);
                if cfg.role == Role::Any {
                    let mut c = cfg.clone();
                    c.role = if cfg.as_client { Role::Client } else { Role::Server };
                    push(c);
                }
                if cfg.ver == Ver::Undet {
                    let mut c = cfg.clone();
                    c.ver = if cfg.wire_v == 4 { Ver::V4 } else { Ver::V5 };
                    push(c);
                }
                // simpler ops
                for (i, o) in ops.iter().enumerate() {
                    let simpler: Option<Op> = match o {
                        Op::Pub { qos, topic, alias, pad, fail } => {
                            if *fail {
                                Some(Op::Pub { qos: *qos, topic: *topic, alias: *alias, pad: *pad, fail: false })
                            } else if *pad != 0 {
                                Some(Op::Pub { qos: *qos, topic: *topic, alias: *alias, pad: 0, fail: false })
                            } else if *alias != 0 {
                                Some(Op::Pub { qos: *qos, topic: *topic, alias: 0, pad: 0, fail: false })
                            } else if *qos == 2 {
                                Some(Op::Pub { qos: 1, topic: *topic, alias: 0, pad: 0, fail: false })
                            } else if *topic != 0 {
                                Some(Op::Pub { qos: *qos, topic: 0, alias: 0, pad: 0, fail: false })
                            } else {
                                None
                            }
                        }
                        Op::PeerPub { qos, id, dup, topic, alias, pad } => {
                            if *pad != 0 {
                                Some(Op::PeerPub { qos: *qos, id: *id, dup: *dup, topic: *topic, alias: *alias, pad: 0 })
                            } else if *alias != 0 {
                                Some(Op::PeerPub { qos: *qos, id: *id, dup: *dup, topic: *topic, alias: 0, pad: 0 })
                            } else if *dup {
                                Some(Op::PeerPub { qos: *qos, id: *id, dup: false, topic: *topic, alias: 0, pad: 0 })
                            } else if *topic != 0 {
                                Some(Op::PeerPub { qos: *qos, id: *id, dup: false, topic: 0, alias: 0, pad: 0 })
                            } else {
                                None
                            }
                        }
                        Op::Close { partial } if *partial != 0 => Some(Op::Close { partial: 0 }),
                        Op::SetChunk { n } if *n != 0 => Some(Op::SetChunk { n: 0 }),
                        Op::PeerAck { nth, how, rc } if *rc != 0 => Some(Op::PeerAck { nth: *nth, how: *how, rc: 0 }),
                        Op::PeerAck { nth, how, rc } if *nth != 0 => Some(Op::PeerAck { nth: 0, how: *how, rc: *rc }),
                        _ => None,
                    };
                    if let Some(n) = simpler {
                        let mut o2 = ops.clone();
                        o2[i] = n;
                        out.push(Case::Solo { cfg: cfg.clone(), ops: o2 });
                    }
                }
                out
            }
        }
    }
}

#[derive(Default, Clone)]
pub struct Outcome {
    pub viol: Option<Violation>,
    pub stats: Stats,
    pub faults: BTreeMap<String, u64>,
    pub steps: u64,
    pub sim_ms: u64,
    /// hash of the op-kind sequence
    pub shape: u64,
    pub nontrivial: bool,
    pub log: Vec<String>,
    pub states: Vec<u64>,
}

fn h64<T: Hash>(t: &T) -> u64 {
    let mut h = std::collections::hash_map::DefaultHasher::new();
    t.hash(&mut h);
    h.finish()
}

fn op_kind(o: &Op) -> u8 {
    // discriminant + the argument that changes behaviour class
    match o {
        Op::Connect { clean } => 1 + *clean as u8,
        Op::Connack { sp, rc } => 3 + *sp as u8 + 2 * (*rc != 0) as u8,
        Op::Pub { qos, alias, fail, .. } => 10 + qos + 3 * (*alias != 0) as u8 + 6 * (*fail as u8),
        Op::Sub => 30,
        Op::Unsub => 31,
        Op::Ping => 32,
        Op::Disconnect { .. } => 33,
        Op::Auth => 34,
        Op::PeerAck { how, rc, .. } => 40 + how + 4 * (*rc != 0) as u8,
        Op::AppPubrel { .. } => 50,
        Op::PeerPub { qos, dup, alias, .. } => 60 + qos + 3 * (*dup as u8) + 6 * (*alias != 0) as u8,
        Op::PeerPubrel { .. } => 80,
        Op::AppAck { err, .. } => 81 + *err as u8,
        Op::PeerSuback { wrong, .. } => 83 + *wrong as u8,
        Op::PeerSimple { kind } => 90 + kind,
        Op::AppAnswer => 110,
        Op::Erase { .. } => 111,
        Op::Acquire => 112,
        Op::Register { .. } => 113,
        Op::Release { .. } => 114,
        Op::ReleaseRaw { .. } => 115,
        Op::Timer { k } => 116 + k.ix() as u8,
        Op::SetPing { .. } => 120,
        Op::Advance { .. } => 121,
        Op::Close { partial } => 122 + (*partial != 0) as u8,
        Op::Crash => 124,
        Op::PeerRaw { .. } => 125,
        Op::SetChunk { .. } => 126,
        Op::Drain => 127,
    }
}

fn solo_state_hash(s: &Solo, last: u8) -> u64 {
    let m = &s.w.m;
    h64(&(m.st as u8, m.out.len().min(4), m.store.len().min(4), m.inq2.len().min(3), m.armed, m.ids.len().min(4), s.inbox.len().min(3), m.persistent, last))
}

fn solo_outcome(s: Solo, ops: &[Op], states: Vec<u64>) -> Outcome {
    let kinds: Vec<u8> = ops.iter().map(op_kind).collect();
    let faults_fired: u64 = s.faults.values().sum();
    Outcome {
        nontrivial: s.w.stats.round_trips >= 1,
        viol: s.w.viol.clone(),
        steps: s.w.step as u64,
        sim_ms: s.now_ms,
        shape: h64(&kinds),
        faults: s.faults.iter().map(|(k, v)| (k.to_string(), *v)).collect(),
        stats: s.w.stats.clone(),
        log: s.w.log.clone(),
        states,
    }
    .with_fault_rule(faults_fired)
}

impl Outcome {
    fn with_fault_rule(self, _fired: u64) -> Outcome {
        self
    }
}

/// property-specific swarm tuning of configuration and op weights
fn tune(prop: &str, c: &mut Cfg, p: &mut GenProfile, r: &mut Rng) {
    let v5 = |c: &mut Cfg| {
        if c.wire_v != 5 {
            c.wire_v = 5;
            if c.ver == Ver::V4 {
                c.ver = Ver::V5;
            }
        }
    };
    match prop {
        "C06" => {
            p.w_pub = 40;
            p.w_peerpub = 4;
            p.w_erase = 6;
            if c.wire_v == 5 && c.sei.is_none() && r.chance(1, 2) {
                c.sei = Some(100);
            }
        }
        "C07" => {
            p.w_peerpub = 50;
            p.w_pub = 6;
            p.w_appack = 30;
            c.f_dup = true;
        }
        "C05" => {
            // boundary announcements that only a peer can make
            if r.chance(1, 4) {
                c.c_tam = Some(0);
            }
            if r.chance(1, 4) {
                c.s_tam = Some(0);
            }
        }
        "C08" => {
            p.w_ids = 20;
            p.w_sub = 14;
        }
        "C12" => {
            v5(c);
            if c.c_rm.is_none() && r.chance(3, 4) {
                c.c_rm = Some(*r.pick(&[1u16, 2, 3]));
            }
            if c.s_rm.is_none() && r.chance(3, 4) {
                c.s_rm = Some(*r.pick(&[1u16, 2, 3]));
            }
            p.w_pub = 40;
            p.w_peerpub = 30;
        }
        "C13" => {
            v5(c);
            if r.chance(3, 4) {
                c.c_tam = Some(*r.pick(&[1u16, 2, 3]));
                c.s_tam = Some(*r.pick(&[1u16, 2, 3]));
            }
            if r.chance(1, 2) {
                c.auto_map = r.chance(1, 2);
                c.auto_replace = !c.auto_map;
            }
            p.w_pub = 50;
            p.w_peerpub = 25;
        }
        "C14" => {
            v5(c);
            // limits around the sizes of the packets of the workload (17..45 bytes)
            let l = [None, Some(12u32), Some(16), Some(18), Some(19), Some(20), Some(22), Some(24), Some(30), Some(40)];
            c.c_mps = *r.pick(&l);
            c.s_mps = *r.pick(&l);
            p.w_pub = 45;
            p.w_peerpub = 25;
        }
        "C15" => {
            c.ka = *r.pick(&[0u16, 5, 10, 60]);
            c.pingresp_to_ms = *r.pick(&[0u64, 3000, 5000]);
            p.w_timer = 25;
            p.w_ping = 12;
            p.w_misc = 14;
        }
        _ => {}
    }
}

pub fn generate(prop: &str, rng: &mut Rng, tier: Tier, run: u64) -> (Case, Outcome) {
    let faults = run % 4 != 0;
    let mut cfg = solo::gen_cfg(rng, faults);
    let mut prof = GenProfile::default();
    tune(prop, &mut cfg, &mut prof, rng);
    cfg.known_triggers = run % 10 == 9;
    let maxlen = if tier == Tier::Quick { 60 } else { 200 };
    let len = if rng.chance(1, 3) { rng.range(3, 12) } else { rng.range(5, maxlen) };
    let mut s = Solo::new(cfg.clone());
    let mut ops = vec![];
    let mut states = vec![];
    // C05: adversarial peer traffic at PRNG points of an otherwise regular session
    let adversary = prop == "C05" && run % 3 != 0;
    for _ in 0..len {
        let mut op = solo::gen_op(&s, rng, &prof);
        if adversary && s.w.m.st != St::Disc && !s.w.want_close && rng.chance(1, 6) {
            op = Op::PeerRaw { bytes: solo::gen_adversarial(&s, rng) };
        }
        ops.push(op.clone());
        s.exec(&op);
        states.push(solo_state_hash(&s, op_kind(&op)));
        if s.w.failed() {
            break;
        }
    }
    if !s.w.failed() {
        ops.push(Op::Drain);
        s.exec(&Op::Drain);
    }
    let o = solo_outcome(s, &ops, states);
    (Case::Solo { cfg, ops }, o)
}

pub fn replay(_prop: &str, case: &Case) -> Outcome {
    match case {
        Case::Solo { cfg, ops } => {
            let mut s = Solo::new(cfg.clone());
            for op in ops {
                s.exec(op);
                if s.w.failed() {
                    break;
                }
            }
            solo_outcome(s, ops, vec![])
        }
    }
}

pub fn components() -> (Vec<&'static str>, Vec<&'static str>) {
    (
        vec!["GenericConnection (core.rs)", "PacketBuilder", "GenericStore", "PacketIdManager", "ValueAllocator", "TopicAliasSend", "TopicAliasRecv", "packet builders/encoders/parsers touched by the traffic", "Cursor"],
        vec!["transport (byte pipes, chunking, loss)", "clock and timer wheel", "application stub", "scripted peer with the harness's own wire codec", "persistence medium (exported session)", "scheduler"],
    )
}
