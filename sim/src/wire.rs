//! Independent MQTT v3.1.1 / v5.0 wire codec of the harness (written from the OASIS
//! specifications, not from the library). Used (a) by the scripted peer to produce the
//! bytes it sends - including values the library's builders refuse -, (b) to decode every
//! packet the library requests to send or reports as received (from its serialisation), and
//! (c) to frame byte streams independently of the library's PacketBuilder.
//!
//! Packet identifiers are `idw` bytes wide on the wire (2 for u16 endpoints, 4 for u32).

use serde::{Deserialize, Serialize};

pub const CONNECT: u8 = 1;
pub const CONNACK: u8 = 2;
pub const PUBLISH: u8 = 3;
pub const PUBACK: u8 = 4;
pub const PUBREC: u8 = 5;
pub const PUBREL: u8 = 6;
pub const PUBCOMP: u8 = 7;
pub const SUBSCRIBE: u8 = 8;
pub const SUBACK: u8 = 9;
pub const UNSUBSCRIBE: u8 = 10;
pub const UNSUBACK: u8 = 11;
pub const PINGREQ: u8 = 12;
pub const PINGRESP: u8 = 13;
pub const DISCONNECT: u8 = 14;
pub const AUTH: u8 = 15;

pub fn kind_name(k: u8) -> &'static str {
    match k {
        1 => "CONNECT",
        2 => "CONNACK",
        3 => "PUBLISH",
        4 => "PUBACK",
        5 => "PUBREC",
        6 => "PUBREL",
        7 => "PUBCOMP",
        8 => "SUBSCRIBE",
        9 => "SUBACK",
        10 => "UNSUBSCRIBE",
        11 => "UNSUBACK",
        12 => "PINGREQ",
        13 => "PINGRESP",
        14 => "DISCONNECT",
        15 => "AUTH",
        _ => "RESERVED",
    }
}

#[derive(Clone, Debug, PartialEq, Eq, Serialize, Deserialize)]
pub enum Prop {
    TopicAlias(u16),
    TopicAliasMax(u16),
    ReceiveMax(u16),
    MaxPacketSize(u32),
    SessionExpiry(u32),
    ServerKeepAlive(u16),
    MessageExpiry(u32),
    ReasonString(String),
    User(String, String),
    /// any other property: id and raw value bytes
    Other(u8, Vec<u8>),
}

#[derive(Clone, Debug, PartialEq, Eq, Serialize, Deserialize, Default)]
pub struct Pkt {
    /// protocol version 4 (v3.1.1) or 5 (v5.0)
    pub v: u8,
    /// packet type nibble 1..=15
    pub kind: u8,
    #[serde(default, skip_serializing_if = "Option::is_none")]
    pub id: Option<u32>,
    #[serde(default, skip_serializing_if = "is0")]
    pub qos: u8,
    #[serde(default, skip_serializing_if = "isf")]
    pub dup: bool,
    #[serde(default, skip_serializing_if = "isf")]
    pub retain: bool,
    #[serde(default, skip_serializing_if = "String::is_empty")]
    pub topic: String,
    #[serde(default, skip_serializing_if = "Vec::is_empty")]
    pub payload: Vec<u8>,
    #[serde(default, skip_serializing_if = "Option::is_none")]
    pub rc: Option<u8>,
    #[serde(default, skip_serializing_if = "isf")]
    pub sp: bool,
    #[serde(default, skip_serializing_if = "isf")]
    pub clean: bool,
    #[serde(default, skip_serializing_if = "is0_16")]
    pub keep_alive: u16,
    #[serde(default, skip_serializing_if = "String::is_empty")]
    pub client_id: String,
    /// CONNECT protocol level byte; 0 = same as `v`
    #[serde(default, skip_serializing_if = "is0")]
    pub level: u8,
    #[serde(default, skip_serializing_if = "Vec::is_empty")]
    pub filters: Vec<(String, u8)>,
    #[serde(default, skip_serializing_if = "Vec::is_empty")]
    pub rcs: Vec<u8>,
    #[serde(default, skip_serializing_if = "Vec::is_empty")]
    pub props: Vec<Prop>,
    /// forged fixed-header flag nibble (raw encoder only)
    #[serde(default, skip_serializing_if = "Option::is_none")]
    pub flags: Option<u8>,
}
fn is0(x: &u8) -> bool {
    *x == 0
}
fn is0_16(x: &u16) -> bool {
    *x == 0
}
fn isf(x: &bool) -> bool {
    !*x
}

impl Pkt {
    pub fn new(v: u8, kind: u8) -> Pkt {
        Pkt {
            v,
            kind,
            ..Default::default()
        }
    }
    pub fn with_id(mut self, id: u32) -> Pkt {
        self.id = Some(id);
        self
    }
    pub fn with_rc(mut self, rc: u8) -> Pkt {
        self.rc = Some(rc);
        self
    }
    pub fn alias(&self) -> Option<u16> {
        self.props.iter().find_map(|p| match p {
            Prop::TopicAlias(a) => Some(*a),
            _ => None,
        })
    }
    pub fn prop_rm(&self) -> Option<u16> {
        self.props.iter().find_map(|p| match p {
            Prop::ReceiveMax(a) => Some(*a),
            _ => None,
        })
    }
    pub fn prop_tam(&self) -> Option<u16> {
        self.props.iter().find_map(|p| match p {
            Prop::TopicAliasMax(a) => Some(*a),
            _ => None,
        })
    }
    pub fn prop_mps(&self) -> Option<u32> {
        self.props.iter().find_map(|p| match p {
            Prop::MaxPacketSize(a) => Some(*a),
            _ => None,
        })
    }
    pub fn prop_sei(&self) -> Option<u32> {
        self.props.iter().find_map(|p| match p {
            Prop::SessionExpiry(a) => Some(*a),
            _ => None,
        })
    }
    pub fn prop_ska(&self) -> Option<u16> {
        self.props.iter().find_map(|p| match p {
            Prop::ServerKeepAlive(a) => Some(*a),
            _ => None,
        })
    }
    /// reason code with the v5 "absent means success" rule applied
    pub fn rc_or0(&self) -> u8 {
        self.rc.unwrap_or(0)
    }
    pub fn short(&self) -> String {
        let mut s = format!("{}v{}", kind_name(self.kind), self.v);
        if let Some(id) = self.id {
            s += &format!("#{id}");
        }
        if self.kind == PUBLISH {
            s += &format!(
                " q{}{}{} t={:?} p={}",
                self.qos,
                if self.dup { " dup" } else { "" },
                if self.retain { " ret" } else { "" },
                self.topic,
                String::from_utf8_lossy(&self.payload)
            );
        }
        if let Some(rc) = self.rc {
            s += &format!(" rc={rc:#x}");
        }
        if self.kind == CONNACK {
            s += &format!(" sp={}", self.sp);
        }
        if self.kind == CONNECT {
            s += &format!(" clean={} ka={}", self.clean, self.keep_alive);
        }
        if !self.props.is_empty() {
            s += &format!(" {:?}", self.props);
        }
        s
    }
}

// ---------------------------------------------------------------- encoding

fn put_vbi(out: &mut Vec<u8>, mut v: u32) {
    loop {
        let mut b = (v % 128) as u8;
        v /= 128;
        if v > 0 {
            b |= 0x80;
        }
        out.push(b);
        if v == 0 {
            break;
        }
    }
}
fn put_str(out: &mut Vec<u8>, s: &str) {
    out.extend_from_slice(&(s.len() as u16).to_be_bytes());
    out.extend_from_slice(s.as_bytes());
}
fn put_id(out: &mut Vec<u8>, id: u32, idw: usize) {
    if idw == 2 {
        out.extend_from_slice(&(id as u16).to_be_bytes());
    } else {
        out.extend_from_slice(&id.to_be_bytes());
    }
}
fn enc_props(props: &[Prop]) -> Vec<u8> {
    let mut b = Vec::new();
    for p in props {
        match p {
            Prop::TopicAlias(v) => {
                b.push(35);
                b.extend_from_slice(&v.to_be_bytes());
            }
            Prop::TopicAliasMax(v) => {
                b.push(34);
                b.extend_from_slice(&v.to_be_bytes());
            }
            Prop::ReceiveMax(v) => {
                b.push(33);
                b.extend_from_slice(&v.to_be_bytes());
            }
            Prop::MaxPacketSize(v) => {
                b.push(39);
                b.extend_from_slice(&v.to_be_bytes());
            }
            Prop::SessionExpiry(v) => {
                b.push(17);
                b.extend_from_slice(&v.to_be_bytes());
            }
            Prop::ServerKeepAlive(v) => {
                b.push(19);
                b.extend_from_slice(&v.to_be_bytes());
            }
            Prop::MessageExpiry(v) => {
                b.push(2);
                b.extend_from_slice(&v.to_be_bytes());
            }
            Prop::ReasonString(s) => {
                b.push(31);
                put_str(&mut b, s);
            }
            Prop::User(k, v) => {
                b.push(38);
                put_str(&mut b, k);
                put_str(&mut b, v);
            }
            Prop::Other(id, raw) => {
                b.push(*id);
                b.extend_from_slice(raw);
            }
        }
    }
    let mut out = Vec::new();
    put_vbi(&mut out, b.len() as u32);
    out.extend_from_slice(&b);
    out
}

/// Encode the body (variable header + payload) of `p`.
fn enc_body(p: &Pkt, idw: usize) -> Vec<u8> {
    let mut b = Vec::new();
    let v5 = p.v == 5;
    match p.kind {
        CONNECT => {
            put_str(&mut b, "MQTT");
            b.push(if p.level != 0 { p.level } else { p.v });
            b.push(if p.clean { 0x02 } else { 0 });
            b.extend_from_slice(&p.keep_alive.to_be_bytes());
            if v5 {
                b.extend_from_slice(&enc_props(&p.props));
            }
            put_str(&mut b, &p.client_id);
        }
        CONNACK => {
            b.push(p.sp as u8);
            b.push(p.rc_or0());
            if v5 {
                b.extend_from_slice(&enc_props(&p.props));
            }
        }
        PUBLISH => {
            put_str(&mut b, &p.topic);
            if p.qos > 0 {
                put_id(&mut b, p.id.unwrap_or(0), idw);
            }
            if v5 {
                b.extend_from_slice(&enc_props(&p.props));
            }
            b.extend_from_slice(&p.payload);
        }
        PUBACK | PUBREC | PUBREL | PUBCOMP => {
            put_id(&mut b, p.id.unwrap_or(0), idw);
            if v5 {
                if !p.props.is_empty() {
                    b.push(p.rc_or0());
                    b.extend_from_slice(&enc_props(&p.props));
                } else if let Some(rc) = p.rc {
                    b.push(rc);
                }
            }
        }
        SUBSCRIBE => {
            put_id(&mut b, p.id.unwrap_or(0), idw);
            if v5 {
                b.extend_from_slice(&enc_props(&p.props));
            }
            for (f, o) in &p.filters {
                put_str(&mut b, f);
                b.push(*o);
            }
        }
        UNSUBSCRIBE => {
            put_id(&mut b, p.id.unwrap_or(0), idw);
            if v5 {
                b.extend_from_slice(&enc_props(&p.props));
            }
            for (f, _) in &p.filters {
                put_str(&mut b, f);
            }
        }
        SUBACK => {
            put_id(&mut b, p.id.unwrap_or(0), idw);
            if v5 {
                b.extend_from_slice(&enc_props(&p.props));
            }
            b.extend_from_slice(&p.rcs);
        }
        UNSUBACK => {
            put_id(&mut b, p.id.unwrap_or(0), idw);
            if v5 {
                b.extend_from_slice(&enc_props(&p.props));
                b.extend_from_slice(&p.rcs);
            }
        }
        PINGREQ | PINGRESP => {}
        DISCONNECT => {
            if v5 {
                if !p.props.is_empty() {
                    b.push(p.rc_or0());
                    b.extend_from_slice(&enc_props(&p.props));
                } else if let Some(rc) = p.rc {
                    b.push(rc);
                }
            }
        }
        AUTH => {
            if !p.props.is_empty() || p.rc.is_some() {
                b.push(p.rc_or0());
                b.extend_from_slice(&enc_props(&p.props));
            }
        }
        _ => {
            b.extend_from_slice(&p.payload);
        }
    }
    b
}

pub fn std_flags(p: &Pkt) -> u8 {
    match p.kind {
        PUBLISH => ((p.dup as u8) << 3) | ((p.qos & 3) << 1) | (p.retain as u8),
        PUBREL | SUBSCRIBE | UNSUBSCRIBE => 0x02,
        _ => 0,
    }
}

pub fn encode(p: &Pkt, idw: usize) -> Vec<u8> {
    let body = enc_body(p, idw);
    let mut out = Vec::with_capacity(body.len() + 5);
    out.push((p.kind << 4) | (p.flags.unwrap_or_else(|| std_flags(p)) & 0x0f));
    put_vbi(&mut out, body.len() as u32);
    out.extend_from_slice(&body);
    out
}

// ---------------------------------------------------------------- decoding

struct Rd<'a> {
    b: &'a [u8],
    i: usize,
}
impl<'a> Rd<'a> {
    fn left(&self) -> usize {
        self.b.len() - self.i
    }
    fn u8(&mut self) -> Result<u8, String> {
        if self.left() < 1 {
            return Err("short".into());
        }
        self.i += 1;
        Ok(self.b[self.i - 1])
    }
    fn u16(&mut self) -> Result<u16, String> {
        if self.left() < 2 {
            return Err("short".into());
        }
        self.i += 2;
        Ok(u16::from_be_bytes([self.b[self.i - 2], self.b[self.i - 1]]))
    }
    fn u32(&mut self) -> Result<u32, String> {
        if self.left() < 4 {
            return Err("short".into());
        }
        self.i += 4;
        Ok(u32::from_be_bytes([
            self.b[self.i - 4],
            self.b[self.i - 3],
            self.b[self.i - 2],
            self.b[self.i - 1],
        ]))
    }
    fn id(&mut self, idw: usize) -> Result<u32, String> {
        if idw == 2 {
            Ok(self.u16()? as u32)
        } else {
            self.u32()
        }
    }
    fn bytes(&mut self, n: usize) -> Result<&'a [u8], String> {
        if self.left() < n {
            return Err("short".into());
        }
        self.i += n;
        Ok(&self.b[self.i - n..self.i])
    }
    fn str(&mut self) -> Result<String, String> {
        let n = self.u16()? as usize;
        let b = self.bytes(n)?;
        String::from_utf8(b.to_vec()).map_err(|_| "utf8".to_string())
    }
    fn bin(&mut self) -> Result<Vec<u8>, String> {
        let n = self.u16()? as usize;
        Ok(self.bytes(n)?.to_vec())
    }
    fn vbi(&mut self) -> Result<u32, String> {
        let mut mult = 1u32;
        let mut v = 0u32;
        for k in 0..4 {
            let b = self.u8()?;
            v += (b & 0x7f) as u32 * mult;
            if b & 0x80 == 0 {
                return Ok(v);
            }
            if k == 3 {
                return Err("vbi too long".into());
            }
            mult *= 128;
        }
        unreachable!()
    }
    fn rest(&mut self) -> &'a [u8] {
        let r = &self.b[self.i..];
        self.i = self.b.len();
        r
    }
}

fn dec_props(r: &mut Rd) -> Result<Vec<Prop>, String> {
    let len = r.vbi()? as usize;
    let raw = r.bytes(len)?;
    let mut q = Rd { b: raw, i: 0 };
    let mut out = Vec::new();
    while q.left() > 0 {
        let id = q.u8()?;
        let p = match id {
            35 => Prop::TopicAlias(q.u16()?),
            34 => Prop::TopicAliasMax(q.u16()?),
            33 => Prop::ReceiveMax(q.u16()?),
            39 => Prop::MaxPacketSize(q.u32()?),
            17 => Prop::SessionExpiry(q.u32()?),
            19 => Prop::ServerKeepAlive(q.u16()?),
            2 => Prop::MessageExpiry(q.u32()?),
            31 => Prop::ReasonString(q.str()?),
            38 => {
                let k = q.str()?;
                let v = q.str()?;
                Prop::User(k, v)
            }
            // one byte
            1 | 23 | 25 | 36 | 37 | 40 | 41 | 42 => Prop::Other(id, q.bytes(1)?.to_vec()),
            // four bytes
            24 => Prop::Other(id, q.bytes(4)?.to_vec()),
            // utf8 / binary (u16 length prefix)
            3 | 8 | 9 | 18 | 21 | 22 | 26 | 28 => {
                let start = q.i;
                let n = q.u16()? as usize;
                q.bytes(n)?;
                Prop::Other(id, q.b[start..q.i].to_vec())
            }
            // variable byte integer
            11 => {
                let start = q.i;
                q.vbi()?;
                Prop::Other(id, q.b[start..q.i].to_vec())
            }
            _ => return Err(format!("unknown property {id}")),
        };
        out.push(p);
    }
    Ok(out)
}

/// Decode one complete frame (fixed header + remaining length + body).
pub fn decode(frame: &[u8], v: u8, idw: usize) -> Result<Pkt, String> {
    let mut r = Rd { b: frame, i: 0 };
    let h = r.u8()?;
    let rl = r.vbi()? as usize;
    if r.left() != rl {
        return Err(format!("remaining length {} but {} bytes", rl, r.left()));
    }
    let kind = h >> 4;
    let fl = h & 0x0f;
    let mut p = Pkt::new(v, kind);
    if fl != std_flags_for(kind, fl) {
        p.flags = Some(fl);
    }
    let v5 = v == 5;
    match kind {
        CONNECT => {
            let name = r.str()?;
            if name != "MQTT" {
                return Err("protocol name".into());
            }
            let level = r.u8()?;
            if level == 4 || level == 5 {
                p.v = level;
            } else {
                p.level = level;
            }
            let v5c = level == 5;
            let cf = r.u8()?;
            p.clean = cf & 0x02 != 0;
            p.keep_alive = r.u16()?;
            if v5c {
                p.props = dec_props(&mut r)?;
            }
            p.client_id = r.str()?;
            if cf & 0x04 != 0 {
                if v5c {
                    dec_props(&mut r)?;
                }
                r.str()?;
                r.bin()?;
            }
            if cf & 0x80 != 0 {
                r.str()?;
            }
            if cf & 0x40 != 0 {
                r.bin()?;
            }
        }
        CONNACK => {
            p.sp = r.u8()? & 1 != 0;
            p.rc = Some(r.u8()?);
            if v5 {
                p.props = dec_props(&mut r)?;
            }
        }
        PUBLISH => {
            p.dup = fl & 0x08 != 0;
            p.qos = (fl >> 1) & 3;
            p.retain = fl & 1 != 0;
            p.flags = None;
            p.topic = r.str()?;
            if p.qos > 0 {
                p.id = Some(r.id(idw)?);
            }
            if v5 {
                p.props = dec_props(&mut r)?;
            }
            p.payload = r.rest().to_vec();
        }
        PUBACK | PUBREC | PUBREL | PUBCOMP => {
            p.id = Some(r.id(idw)?);
            if v5 && r.left() > 0 {
                p.rc = Some(r.u8()?);
                if r.left() > 0 {
                    p.props = dec_props(&mut r)?;
                }
            }
        }
        SUBSCRIBE => {
            p.id = Some(r.id(idw)?);
            if v5 {
                p.props = dec_props(&mut r)?;
            }
            while r.left() > 0 {
                let f = r.str()?;
                let o = r.u8()?;
                p.filters.push((f, o));
            }
        }
        UNSUBSCRIBE => {
            p.id = Some(r.id(idw)?);
            if v5 {
                p.props = dec_props(&mut r)?;
            }
            while r.left() > 0 {
                let f = r.str()?;
                p.filters.push((f, 0));
            }
        }
        SUBACK => {
            p.id = Some(r.id(idw)?);
            if v5 {
                p.props = dec_props(&mut r)?;
            }
            p.rcs = r.rest().to_vec();
        }
        UNSUBACK => {
            p.id = Some(r.id(idw)?);
            if v5 {
                p.props = dec_props(&mut r)?;
                p.rcs = r.rest().to_vec();
            }
        }
        PINGREQ | PINGRESP => {}
        DISCONNECT => {
            if v5 && r.left() > 0 {
                p.rc = Some(r.u8()?);
                if r.left() > 0 {
                    p.props = dec_props(&mut r)?;
                }
            }
        }
        AUTH => {
            if r.left() > 0 {
                p.rc = Some(r.u8()?);
                if r.left() > 0 {
                    p.props = dec_props(&mut r)?;
                }
            }
        }
        _ => return Err("reserved packet type".into()),
    }
    if r.left() != 0 {
        return Err(format!("{} trailing bytes", r.left()));
    }
    Ok(p)
}

fn std_flags_for(kind: u8, fl: u8) -> u8 {
    match kind {
        PUBLISH => fl,
        PUBREL | SUBSCRIBE | UNSUBSCRIBE => 2,
        _ => 0,
    }
}

// ---------------------------------------------------------------- framing

#[derive(Debug, Clone, Copy, PartialEq, Eq)]
pub enum Scan {
    /// more bytes needed to know the frame length
    Need,
    /// a frame of this total length starts at the beginning of the buffer
    Frame(usize),
    /// the Remaining Length field has a fifth byte: the first 5 bytes are an invalid frame
    BadRl,
}

/// Independent framing: how long is the frame that starts at `buf[0]`?
pub fn scan(buf: &[u8]) -> Scan {
    if buf.len() < 2 {
        return Scan::Need;
    }
    let mut mult = 1usize;
    let mut v = 0usize;
    for k in 0..4 {
        let Some(&b) = buf.get(1 + k) else {
            return Scan::Need;
        };
        v += (b & 0x7f) as usize * mult;
        if b & 0x80 == 0 {
            return Scan::Frame(1 + k + 1 + v);
        }
        mult *= 128;
    }
    Scan::BadRl
}

/// Split a complete stream into frames; the tail may be an incomplete frame.
#[derive(Debug, Clone, PartialEq, Eq)]
pub enum Seg {
    Frame(usize, usize),
    BadRl(usize, usize),
    Partial(usize, usize),
}
pub fn segment(stream: &[u8]) -> Vec<Seg> {
    let mut out = Vec::new();
    let mut i = 0;
    while i < stream.len() {
        match scan(&stream[i..]) {
            Scan::Need => {
                out.push(Seg::Partial(i, stream.len()));
                break;
            }
            Scan::BadRl => {
                out.push(Seg::BadRl(i, i + 5));
                i += 5;
            }
            Scan::Frame(n) => {
                if i + n > stream.len() {
                    out.push(Seg::Partial(i, stream.len()));
                    break;
                }
                out.push(Seg::Frame(i, i + n));
                i += n;
            }
        }
    }
    out
}
