//! Pair driver (C01): a real client connection object and a real server connection object
//! exchange the bytes each requests to send over a simulated transport (two byte pipes with
//! arbitrary chunking and interleaving, loss at any byte with independent notification of
//! the two ends, half-open sending, write failure, stalled applications, timers on a
//! simulated clock). Two application stubs follow the usage contract; a ledger of tagged
//! publishes is the end-to-end oracle. Both endpoints additionally run under the strict
//! per-endpoint reference models (`Watch`).

use crate::ep::*;
use crate::model::*;
use crate::rng::Rng;
use crate::solo::{InNeed, TOPICS};
use crate::wire::{self, Pkt, Prop};
use serde::{Deserialize, Serialize};
use std::collections::{BTreeMap, BTreeSet};

#[derive(Clone, Debug, Serialize, Deserialize, PartialEq)]
pub struct PCfg {
    pub wire_v: u8,
    pub pid32: bool,
    pub any_roles: bool,
    pub undet_server: bool,
    pub c_auto_pub: bool,
    pub s_auto_pub: bool,
    pub s_auto_ping: bool,
    pub c_auto_map: bool,
    pub c_auto_replace: bool,
    pub s_auto_map: bool,
    pub s_auto_replace: bool,
    pub vectored: bool,
    pub persistent: bool,
    pub first_clean: bool,
    pub ka: u16,
    pub pingresp_to_ms: u64,
    pub c_rm: Option<u16>,
    pub c_tam: Option<u16>,
    pub c_mps: Option<u32>,
    pub s_rm: Option<u16>,
    pub s_tam: Option<u16>,
    pub s_mps: Option<u32>,
    pub s_ska: Option<u16>,
    /// the broker builds a fresh server object per TCP connection and restores the export
    pub fresh_server: bool,
    pub f_loss: bool,
    pub f_chunk: bool,
    pub f_writefail: bool,
    pub f_timers: bool,
}

#[derive(Clone, Copy, Debug, Serialize, Deserialize, PartialEq, Eq, Hash, PartialOrd, Ord)]
pub enum Side {
    C,
    S,
}
impl Side {
    pub fn ix(self) -> usize {
        self as usize
    }
    pub fn other(self) -> Side {
        if self == Side::C {
            Side::S
        } else {
            Side::C
        }
    }
}

#[derive(Clone, Debug, Serialize, Deserialize, PartialEq)]
pub enum POp {
    /// client opens a transport and sends CONNECT
    Connect,
    Pub { side: Side, qos: u8, topic: u8, alias: u8, pad: u16, fail: bool },
    Sub,
    Unsub,
    Ping,
    /// the application on `side` discharges its nth pending obligation (manual ack, CONNACK, SUBACK, PINGRESP, owed PUBREL)
    Act { side: Side, nth: u8 },
    /// deliver up to n bytes (0 = everything) of the pipe towards `to`
    Deliver { to: Side, n: u16 },
    Timer { side: Side, k: Tk },
    /// the transport dies; only the first keep_* bytes still in flight towards each side arrive
    Lose { keep_c: u16, keep_s: u16 },
    /// `side` learns that the transport is gone (notify_closed)
    Closed { side: Side },
    /// client sends DISCONNECT (v5: either side)
    Disconnect { side: Side },
    Quiesce,
    /// simulated time passes (no timer deadline is skipped: see `live_run`)
    At { ms: u64 },
    /// bounded liveness: both ends are still connected and nobody asked to close
    ExpectAlive,
}

#[derive(Clone, Debug)]
struct Tag {
    from: Side,
    qos: u8,
    topic: String,
    payload: Vec<u8>,
    accepted: bool,
    /// a transport loss happened while the exchange was incomplete
    cut: bool,
    conn: u32,
    delivered: u32,
    id: Option<u32>,
    /// the exchange is complete at the sender
    done: bool,
    /// the session in which it was sent persists across connections
    persistent: bool,
    /// the sender announced at a resume that it dropped the stored copy (larger than the
    /// peer's Maximum Packet Size once the alias is replaced by the full topic)
    dropped: bool,
    /// the stored form (full topic, no alias) exceeds the peer's Maximum Packet Size
    stored_oversize: bool,
}

pub struct End {
    pub w: Watch,
    /// received, answer owed by the application (dropped when the transport closes)
    pub inbox: Vec<(u32, InNeed)>,
    pub owned: BTreeSet<u32>,
    pub deadline: [Option<u64>; 3],
    /// this end has been told that the current transport is closed (or never had one)
    pub told_closed: bool,
    /// connect acknowledged on the current transport
    pub connack_done: bool,
    /// server: CONNECT received and CONNACK owed
    pub connack_owed: bool,
    /// the object has seen traffic on the current transport
    pub touched: bool,
}

pub struct Pair {
    pub cfg: PCfg,
    pub ends: [End; 2],
    /// bytes in flight towards C and towards S
    pub pipe: [Vec<u8>; 2],
    /// transport exists and carries bytes
    pub up: bool,
    pub now_ms: u64,
    pub tag: u32,
    tags: BTreeMap<u32, Tag>,
    pub conn_no: u32,
    pub losses: u32,
    pub server_has_session: bool,
    /// the session the broker keeps for the client while no connection object holds it
    server_durable: Option<Durable>,
    /// flow-control bookkeeping became ambiguous at some point (classification of K03 follow-ups)
    ever_ambiguous: [bool; 2],
    pub viol: Option<Violation>,
    pub faults: BTreeMap<&'static str, u64>,
    pub stats: Stats,
    pub log: Vec<String>,
    pub steps: u64,
}

fn opts(c: &PCfg, side: Side) -> Opts {
    Opts {
        auto_pub: if side == Side::C { c.c_auto_pub } else { c.s_auto_pub },
        auto_ping: side == Side::S && c.s_auto_ping,
        auto_map: if side == Side::C { c.c_auto_map } else { c.s_auto_map },
        auto_replace: if side == Side::C { c.c_auto_replace } else { c.s_auto_replace },
        offline: false,
        pingresp_to_ms: if side == Side::C { c.pingresp_to_ms } else { 0 },
    }
}

impl Pair {
    pub fn new(cfg: PCfg) -> Pair {
        let ver = if cfg.wire_v == 4 { Ver::V4 } else { Ver::V5 };
        let (rc, rs) = if cfg.any_roles { (Role::Any, Role::Any) } else { (Role::Client, Role::Server) };
        let mut wc = Watch::new("C", rc, ver, cfg.pid32, opts(&cfg, Side::C));
        let sver = if cfg.undet_server { Ver::Undet } else { ver };
        let mut ws = Watch::new("S", rs, sver, cfg.pid32, opts(&cfg, Side::S));
        wc.vectored = cfg.vectored;
        ws.vectored = cfg.vectored;
        let mk = |w: Watch| End { w, inbox: vec![], owned: BTreeSet::new(), deadline: [None; 3], told_closed: true, connack_done: false, connack_owed: false, touched: false };
        Pair { cfg, ends: [mk(wc), mk(ws)], pipe: [vec![], vec![]], up: false, now_ms: 0, tag: 0, tags: BTreeMap::new(), conn_no: 0, losses: 0, server_has_session: false, server_durable: None, ever_ambiguous: [false; 2], viol: None, faults: BTreeMap::new(), stats: Stats::default(), log: vec![], steps: 0 }
    }

    pub fn failed(&self) -> bool {
        self.viol.is_some() || self.ends[0].w.failed() || self.ends[1].w.failed()
    }

    pub fn violation(&self) -> Option<Violation> {
        if let Some(v) = &self.viol {
            return Some(v.clone());
        }
        // A per-endpoint monitor tripped while two real endpoints talk to each other. The
        // delivery / identifier / store / flow-control / alias / size clauses are part of C01's
        // statement as well (exactly once, ids released, stores emptied, vacancy regained,
        // original topic, no protocol error), so those count for C01 too.
        let mut v = self.ends[0].w.viol.clone().or(self.ends[1].w.viol.clone())?;
        const SUBSUMED: [&str; 7] = ["C05", "C06", "C07", "C08", "C12", "C13", "C14"];
        if v.props.iter().any(|p| SUBSUMED.contains(p)) && !v.props.contains(&"C01") {
            v.props.push("C01");
            v.class = format!("endpoint/{}", v.class);
        }
        Some(v)
    }

    fn flag(&mut self, class: &str, msg: String) {
        if self.viol.is_none() {
            self.viol = Some(Violation { props: vec!["C01"], class: class.to_string(), msg, step: self.steps as usize });
        }
    }

    fn fault(&mut self, k: &'static str) {
        *self.faults.entry(k).or_insert(0) += 1;
    }

    fn v(&self) -> u8 {
        self.cfg.wire_v
    }

    fn connect_pkt(&self, clean: bool) -> Pkt {
        let c = &self.cfg;
        let mut p = Pkt::new(c.wire_v, wire::CONNECT);
        p.client_id = "cid".into();
        p.clean = clean;
        p.keep_alive = c.ka;
        if c.wire_v == 5 {
            if c.persistent {
                p.props.push(Prop::SessionExpiry(1000));
            }
            if let Some(x) = c.c_rm {
                p.props.push(Prop::ReceiveMax(x));
            }
            if let Some(x) = c.c_mps {
                p.props.push(Prop::MaxPacketSize(x));
            }
            if let Some(x) = c.c_tam {
                p.props.push(Prop::TopicAliasMax(x));
            }
        }
        p
    }

    fn connack_pkt(&self, sp: bool) -> Pkt {
        let c = &self.cfg;
        let mut p = Pkt::new(c.wire_v, wire::CONNACK);
        p.sp = sp;
        p.rc = Some(0);
        if c.wire_v == 5 {
            if let Some(x) = c.s_rm {
                p.props.push(Prop::ReceiveMax(x));
            }
            if let Some(x) = c.s_mps {
                p.props.push(Prop::MaxPacketSize(x));
            }
            if let Some(x) = c.s_tam {
                p.props.push(Prop::TopicAliasMax(x));
            }
            if let Some(x) = c.s_ska {
                p.props.push(Prop::ServerKeepAlive(x));
            }
        }
        p
    }

    /// the application of `side` handles an event list, in order
    fn handle(&mut self, side: Side, evs: &[Ev], from_recv_or_timer: bool) {
        let resume_list = evs.iter().any(|e| matches!(e, Ev::Recv { pkt } | Ev::Send { pkt, .. } if pkt.kind == wire::CONNACK));
        if resume_list {
            for e in evs {
                if let Ev::Released(id) = e {
                    for t in self.tags.values_mut() {
                        if t.from == side && t.id == Some(*id) && t.accepted && !t.done {
                            if t.stored_oversize {
                                t.dropped = true;
                                self.stats.hit("c01_stored_copy_dropped_as_oversize");
                            } else {
                                let m = format!("{:?} dropped the stored copy of tag {} at the resume although it fits the peer's Maximum Packet Size", side, String::from_utf8_lossy(&t.payload));
                                self.viol = Some(Violation { props: vec!["C01", "C14", "C06"], class: "stored-packet-dropped-within-limit".into(), msg: m, step: self.steps as usize });
                                return;
                            }
                        }
                    }
                }
            }
        }
        for e in evs {
            match e {
                Ev::Send { bytes, .. } => {
                    let e = &self.ends[side.ix()];
                    if self.up && !e.told_closed && !e.w.want_close {
                        self.pipe[side.other().ix()].extend_from_slice(bytes);
                    } else {
                        // half-open: written into a dead transport
                        self.fault("half_open_send");
                    }
                }
                Ev::TimerReset(k, ms) => self.ends[side.ix()].deadline[k.ix()] = Some(self.now_ms + ms),
                Ev::TimerCancel(k) => self.ends[side.ix()].deadline[k.ix()] = None,
                Ev::Released(id) => {
                    self.ends[side.ix()].owned.remove(id);
                }
                Ev::Recv { pkt } => self.on_delivered(side, pkt),
                Ev::Error(er) => {
                    if from_recv_or_timer {
                        let m = format!("{:?} reports {} about its peer: {}", side, er.1, evs_short(evs));
                        // the peer's flow-control bookkeeping was ambiguous (an exchange opened on an
                        // earlier connection was completed on this one): a class of its own
                        let amb = er.0 == E_RM_EXCEEDED && (self.ends[side.other().ix()].w.m.flow_ambiguous || self.ever_ambiguous[side.other().ix()]);
                        let cls = if amb { format!("protocol-error-about-peer/{}/after-completing-an-exchange-of-an-earlier-connection", er.1) } else { format!("protocol-error-about-peer/{:?}/{}", side, er.1) };
                        self.flag(&cls, m);
                        return;
                    }
                }
                Ev::Close => {
                    // the application closes the transport: what this side still had in flight
                    // towards it is gone, the peer will see EOF after what is in flight towards it
                    self.pipe[side.ix()].clear();
                }
            }
        }
    }

    fn on_delivered(&mut self, side: Side, p: &Pkt) {
        use wire::*;
        let auto_pub = self.ends[side.ix()].w.opts.auto_pub;
        match p.kind {
            PUBLISH => {
                // ledger
                let tag = std::str::from_utf8(&p.payload).ok().and_then(|s| s.trim_start_matches('m').split('x').next().map(|x| x.to_string())).and_then(|s| s.parse::<u32>().ok());
                match tag.and_then(|t| self.tags.get_mut(&t).map(|x| (t, x))) {
                    Some((t, tg)) => {
                        if tg.from == side {
                            let m = format!("{:?} received its own publish {t}", side);
                            self.flag("publish-echoed", m);
                            return;
                        }
                        if tg.topic != p.topic || tg.payload != p.payload || tg.qos != p.qos {
                            let m = format!("tag {t}: sent topic {:?} payload {:?} q{}, delivered {}", tg.topic, String::from_utf8_lossy(&tg.payload), tg.qos, p.short());
                            self.viol = Some(Violation { props: vec!["C01", "C13"], class: "delivered-with-other-topic-or-payload".into(), msg: m, step: self.steps as usize });
                            return;
                        }
                        tg.delivered += 1;
                        let (d, q, lossy) = (tg.delivered, tg.qos, self.losses > 0);
                        if d > 1 && (q != 1 || !lossy) {
                            let m = format!("tag {t} (QoS {q}) notified {d} times (transport losses so far: {})", self.losses);
                            self.viol = Some(Violation { props: if q == 2 { vec!["C01", "C07"] } else { vec!["C01"] }, class: format!("duplicate-delivery/q{q}"), msg: m, step: self.steps as usize });
                            return;
                        }
                        self.stats.hit("c01_publish_delivered_end_to_end");
                    }
                    None => {
                        let m = format!("{:?} was notified of a PUBLISH nobody sent: {}", side, p.short());
                        self.flag("phantom-publish", m);
                        return;
                    }
                }
                if !auto_pub {
                    if let Some(id) = p.id {
                        self.ends[side.ix()].inbox.push((id, if p.qos == 1 { InNeed::Puback } else { InNeed::Pubrec }));
                    }
                }
            }
            PUBREL => {
                if !auto_pub {
                    if let Some(id) = p.id {
                        self.ends[side.ix()].inbox.push((id, InNeed::Pubcomp));
                    }
                }
            }
            CONNECT => {
                self.ends[side.ix()].connack_owed = true;
                if let Some(d) = self.server_durable.take() {
                    if !p.clean {
                        self.ends[side.ix()].w.restore_durable(&d);
                    }
                }
            }
            CONNACK => {
                if p.rc_or0() == 0 {
                    self.ends[side.ix()].connack_done = true;
                    if !p.sp {
                        self.ends[side.ix()].owned.clear();
                    }
                }
            }
            SUBSCRIBE => self.ends[side.ix()].inbox.push((p.id.unwrap_or(0), InNeed::Suback)),
            UNSUBSCRIBE => self.ends[side.ix()].inbox.push((p.id.unwrap_or(0), InNeed::Unsuback)),
            PINGREQ => {
                if !self.ends[side.ix()].w.opts.auto_ping {
                    self.ends[side.ix()].inbox.push((0, InNeed::Pingresp));
                }
            }
            DISCONNECT => {
                // the peer said goodbye: the application closes the transport
                self.ends[side.ix()].w.want_close = true;
                self.pipe[side.ix()].clear();
            }
            _ => {}
        }
    }

    fn app_send(&mut self, side: Side, p: &Pkt) -> Vec<Ev> {
        self.ends[side.ix()].touched = true;
        let evs = self.ends[side.ix()].w.send(p);
        self.handle(side, &evs, false);
        evs
    }

    fn take_id(&mut self, side: Side) -> Option<u32> {
        let e = &mut self.ends[side.ix()];
        match e.owned.iter().next_back().cloned() {
            Some(i) => Some(i),
            None => {
                let i = e.w.acquire()?;
                e.owned.insert(i);
                Some(i)
            }
        }
    }

    fn send_with_id(&mut self, side: Side, p: &Pkt) -> Vec<Ev> {
        let id = p.id.unwrap();
        self.ends[side.ix()].owned.remove(&id);
        let evs = self.app_send(side, p);
        let refused = evs.iter().any(|e| e.is_error());
        let released = evs.iter().any(|e| matches!(e, Ev::Released(x) if *x == id));
        if refused && !released && !self.failed() {
            self.ends[side.ix()].owned.insert(id);
        }
        evs
    }

    fn session_ready(&self, side: Side) -> bool {
        let e = &self.ends[side.ix()];
        !e.told_closed && !e.w.want_close && e.connack_done && e.w.m.st == St::Connected
    }

    fn do_closed(&mut self, side: Side) {
        // an object on which no connection was ever started has nothing to be told
        if self.ends[side.ix()].touched || self.ends[side.ix()].w.want_close {
            let evs = self.ends[side.ix()].w.closed();
            self.handle(side, &evs, false);
        }
        self.ends[side.ix()].touched = false;
        let e = &mut self.ends[side.ix()];
        e.deadline = [None; 3];
        e.inbox.clear();
        e.told_closed = true;
        e.connack_done = false;
        e.connack_owed = false;
        // what was in flight towards this side is never read
        self.pipe[side.ix()].clear();
        if !self.ends[side.ix()].w.m.persistent {
            let stale: Vec<u32> = self.ends[side.ix()].w.m.out.iter().filter(|o| o.stage == Stage::GotPubrec).map(|o| o.id).collect();
            for id in stale {
                if self.ends[side.ix()].w.m.ids.contains(&id) {
                    let evs = self.ends[side.ix()].w.release(id);
                    self.handle(side, &evs, false);
                }
            }
        }
        if self.ends[0].told_closed && self.ends[1].told_closed {
            self.up = false;
            self.pipe[0].clear();
            self.pipe[1].clear();
        }
    }

    /// incomplete exchanges at the moment of a loss are "cut"
    fn mark_cut(&mut self) {
        self.update_done();
        for t in self.tags.values_mut() {
            if t.accepted && t.qos > 0 && !t.done {
                t.cut = true;
            }
        }
    }

    /// an exchange is complete at the sender once its id left the sender's in-flight list
    fn update_done(&mut self) {
        let out: [BTreeSet<u32>; 2] = [self.ends[0].w.m.out.iter().map(|o| o.id).collect(), self.ends[1].w.m.out.iter().map(|o| o.id).collect()];
        let server_parked = self.server_durable.is_some();
        for t in self.tags.values_mut() {
            if t.from == Side::S && server_parked {
                // the broker's session is parked in its store: nothing completes meanwhile
                continue;
            }
            if t.accepted && t.qos > 0 && !t.done {
                if let Some(id) = t.id {
                    if !out[t.from.ix()].contains(&id) {
                        t.done = true;
                    }
                }
            }
        }
    }

    pub fn exec(&mut self, op: &POp) {
        self.exec_inner(op);
        self.update_done();
        for i in 0..2 {
            if self.ends[i].w.m.flow_ambiguous {
                self.ever_ambiguous[i] = true;
            }
        }
    }

    fn exec_inner(&mut self, op: &POp) {
        use wire::*;
        if self.failed() {
            return;
        }
        self.steps += 1;
        let v = self.v();
        match op {
            POp::Connect => {
                if self.up || !self.ends[0].told_closed || !self.ends[1].told_closed {
                    return;
                }
                if self.cfg.fresh_server && self.conn_no > 0 {
                    // a real broker builds a new connection object per accepted transport and
                    // restores the session once the CONNECT told it who the client is
                    if let Some(d) = self.ends[1].w.crash_take() {
                        if self.server_durable.is_none() {
                            self.server_durable = Some(d);
                        }
                    }
                    self.ends[1].owned.clear();
                    self.fault("server_object_replaced");
                }
                self.up = true;
                self.conn_no += 1;
                self.ends[0].told_closed = false;
                self.ends[1].told_closed = false;
                let clean = if self.cfg.persistent { self.conn_no == 1 && self.cfg.first_clean } else { true };
                let p = self.connect_pkt(clean);
                if clean {
                    self.ends[0].owned.clear();
                }
                self.app_send(Side::C, &p);
            }
            POp::Pub { side, qos, topic, alias, pad, fail } => {
                if !self.session_ready(*side) {
                    return;
                }
                let mut p = Pkt::new(v, PUBLISH);
                p.qos = *qos;
                let t = TOPICS[*topic as usize % TOPICS.len()];
                let mut intended = t.to_string();
                if v == 5 && alias & 0x80 != 0 {
                    let a = (alias & 0x7f) as u16;
                    // the application only uses an alias it has bound on this connection
                    match self.ends[side.ix()].w.m.peer_alias.get(&a) {
                        Some(t) => intended = t.clone(),
                        None => return,
                    }
                    p.props.push(Prop::TopicAlias(a));
                } else {
                    p.topic = t.into();
                    if v == 5 && *alias != 0 {
                        let tam = self.ends[side.ix()].w.m.tam_send;
                        if (*alias as u16) > tam {
                            return;
                        }
                        p.props.push(Prop::TopicAlias(*alias as u16));
                    }
                }
                self.tag += 1;
                let tag = self.tag;
                let mut pl = format!("m{tag}").into_bytes();
                if *pad < crate::solo::PAD_PROPS_MIN {
                    pl.extend(std::iter::repeat(b'x').take(*pad as usize));
                } else if let Some(l) = self.ends[side.ix()].w.m.mps_send {
                    // symbolic pad: size the packet to the peer's Maximum Packet Size (or one off)
                    p.payload = pl.clone();
                    if *qos > 0 {
                        p.id = Some(1);
                    }
                    let base = wire::encode(&p, self.ends[side.ix()].w.idw).len() as i64;
                    let want = l as i64 + (*pad as i64 - crate::solo::PAD_AT_LIMIT as i64);
                    if want > base && want - base < 400 {
                        pl.extend(std::iter::repeat(b'x').take((want - base) as usize));
                    }
                    p.id = None;
                }
                p.payload = pl.clone();
                self.tags.insert(tag, Tag { from: *side, qos: *qos, topic: intended, payload: pl, accepted: false, cut: false, conn: self.conn_no, delivered: 0, id: None, done: false, persistent: self.ends[side.ix()].w.m.persistent, dropped: false, stored_oversize: false });
                let evs = if *qos > 0 {
                    let Some(id) = self.take_id(*side) else { return };
                    p.id = Some(id);
                    let mut sp = p.clone();
                    sp.dup = true;
                    sp.topic = self.tags[&tag].topic.clone();
                    sp.props.retain(|x| !matches!(x, Prop::TopicAlias(_)));
                    let ssz = wire::encode(&sp, self.ends[side.ix()].w.idw).len();
                    let over = self.ends[side.ix()].w.m.mps_send.map_or(false, |l| ssz > l as usize);
                    if let Some(t) = self.tags.get_mut(&tag) {
                        t.id = Some(id);
                        t.stored_oversize = over;
                    }
                    self.send_with_id(*side, &p)
                } else {
                    self.app_send(*side, &p)
                };
                let accepted = !evs.iter().any(|e| e.is_error());
                let dead = !self.up;
                if let Some(t) = self.tags.get_mut(&tag) {
                    t.accepted = accepted;
                    // written into a transport that is already dead (half-open period)
                    if dead {
                        t.cut = true;
                    }
                }
                if accepted {
                    self.stats.hit("c01_publish_accepted");
                }
                if *fail && accepted {
                    // the write fails: release what the library asks to release; the transport is dead
                    let mut dead = false;
                    for e in &evs {
                        if let Ev::Send { rel, bytes, .. } = e {
                            dead = true;
                            // the bytes never left
                            let n = self.pipe[side.other().ix()].len();
                            self.pipe[side.other().ix()].truncate(n.saturating_sub(bytes.len()));
                            if let Some(id) = rel {
                                self.ends[side.ix()].w.write_failed();
                                let r = self.ends[side.ix()].w.release(*id);
                                self.handle(*side, &r, false);
                                if let Some(t) = self.tags.get_mut(&tag) {
                                    t.accepted = false;
                                }
                            } else if let Some(t) = self.tags.get_mut(&tag) {
                                t.cut = true;
                            }
                        }
                    }
                    if dead {
                        self.fault("write_failure");
                        // the transport is dead: this side knows at once, the peer sees EOF
                        // after what was already in flight towards it
                        self.up = false;
                        self.mark_cut();
                        self.losses += 1;
                        self.do_closed(*side);
                    }
                }
            }
            POp::Sub | POp::Unsub => {
                if !self.session_ready(Side::C) {
                    return;
                }
                let Some(id) = self.take_id(Side::C) else { return };
                let mut p = Pkt::new(v, if *op == POp::Sub { SUBSCRIBE } else { UNSUBSCRIBE }).with_id(id);
                p.filters = vec![("t/#".into(), if *op == POp::Sub { 1 } else { 0 })];
                self.send_with_id(Side::C, &p);
            }
            POp::Ping => {
                if !self.session_ready(Side::C) {
                    return;
                }
                self.app_send(Side::C, &Pkt::new(v, PINGREQ));
            }
            POp::Act { side, nth } => self.act(*side, *nth),
            POp::Deliver { to, n } => {
                let e = &self.ends[to.ix()];
                if e.told_closed || e.w.want_close || self.pipe[to.ix()].is_empty() {
                    return;
                }
                let len = self.pipe[to.ix()].len();
                let k = if *n == 0 { len } else { (*n as usize).min(len) };
                if k < len {
                    self.fault("fragmentation");
                }
                let chunk: Vec<u8> = self.pipe[to.ix()].drain(..k).collect();
                self.ends[to.ix()].touched = true;
                let lists = self.ends[to.ix()].w.feed(&chunk);
                for l in lists {
                    self.handle(*to, &l, true);
                    if self.failed() {
                        return;
                    }
                }
            }
            POp::Timer { side, k } => {
                let Some(d) = self.ends[side.ix()].deadline[k.ix()] else { return };
                if self.ends[side.ix()].told_closed {
                    return;
                }
                if self.now_ms < d {
                    self.now_ms = d;
                }
                self.ends[side.ix()].deadline[k.ix()] = None;
                let evs = self.ends[side.ix()].w.timer(*k);
                self.fault("timer_expiry");
                if evs.iter().any(|e| matches!(e, Ev::Close)) {
                    // a keep-alive timeout ends the connection like a loss does
                    self.mark_cut();
                    self.losses += 1;
                    self.fault("keepalive_timeout");
                }
                self.handle(*side, &evs, true);
            }
            POp::Lose { keep_c, keep_s } => {
                if !self.up {
                    return;
                }
                let kc = (*keep_c as usize).min(self.pipe[0].len());
                let ks = (*keep_s as usize).min(self.pipe[1].len());
                if matches!(wire::segment(&self.pipe[0][..kc]).last(), Some(wire::Seg::Partial(..))) || matches!(wire::segment(&self.pipe[1][..ks]).last(), Some(wire::Seg::Partial(..))) {
                    self.fault("loss_mid_frame");
                    self.stats.hit("loss_mid_frame");
                }
                if !self.pipe[0].is_empty() || !self.pipe[1].is_empty() {
                    self.stats.hit("loss_with_bytes_in_flight");
                }
                self.pipe[0].truncate(kc);
                self.pipe[1].truncate(ks);
                self.up = false;
                self.mark_cut();
                self.losses += 1;
                self.fault("transport_loss");
            }
            POp::Closed { side } => {
                let e = &self.ends[side.ix()];
                if e.told_closed {
                    return;
                }
                // a side is told when its transport is dead or when it asked to close
                if self.up && !e.w.want_close && !self.ends[side.other().ix()].told_closed {
                    return;
                }
                if e.w.want_close && self.up {
                    // local close of a live transport: the peer sees EOF later
                    self.up = false;
                    self.mark_cut();
                    self.losses += 1;
                    self.fault("closed_by_endpoint");
                }
                self.do_closed(*side);
            }
            POp::Disconnect { side } => {
                if !self.session_ready(*side) || (*side == Side::S && v == 4) {
                    return;
                }
                self.mark_cut();
                self.losses += 1;
                self.app_send(*side, &Pkt::new(v, DISCONNECT));
                self.fault("disconnect_sent");
            }
            POp::Quiesce => self.quiesce(),
            POp::At { ms } => {
                if *ms > self.now_ms {
                    self.now_ms = *ms;
                }
            }
            POp::ExpectAlive => {
                for side in [Side::C, Side::S] {
                    let e = &self.ends[side.ix()];
                    if e.w.want_close || e.told_closed || e.w.m.st != St::Connected {
                        let m = format!("{:?} is no longer connected after an idle period although keep-alive traffic flowed in time (status {:?}, close requested {})", side, e.w.m.st, e.w.want_close);
                        self.viol = Some(Violation { props: vec!["C15", "C01"], class: format!("keepalive-liveness/{:?}", side), msg: m, step: self.steps as usize });
                        return;
                    }
                }
                self.stats.hit("c15_keepalive_liveness_held");
            }
        }
    }

    fn act(&mut self, side: Side, nth: u8) {
        use wire::*;
        let v = self.v();
        let e = &self.ends[side.ix()];
        if e.told_closed || e.w.want_close {
            return;
        }
        if side == Side::S && e.connack_owed {
            let resumes = self.ends[1].w.m.connect.as_ref().map_or(false, |c| !c.clean);
            let sp = self.server_has_session && self.ends[1].w.m.persistent && resumes;
            let p = self.connack_pkt(sp);
            self.ends[1].connack_owed = false;
            let evs = self.app_send(Side::S, &p);
            if !evs.iter().any(|e| e.is_error()) {
                self.ends[1].connack_done = true;
                self.server_has_session = self.ends[1].w.m.persistent;
                if !sp {
                    self.ends[1].owned.clear();
                }
            }
            return;
        }
        if !self.session_ready(side) {
            return;
        }
        // owed PUBREL first (it survives reconnects), then the inbox
        let got: Vec<u32> = self.ends[side.ix()].w.m.out.iter().filter(|o| o.stage == Stage::GotPubrec).map(|o| o.id).collect();
        let n_in = self.ends[side.ix()].inbox.len();
        let total = got.len() + n_in;
        if total == 0 {
            return;
        }
        let ix = nth as usize % total;
        if ix < got.len() {
            self.app_send(side, &Pkt::new(v, PUBREL).with_id(got[ix]));
            return;
        }
        let ix = ix - got.len();
        let (id, need) = self.ends[side.ix()].inbox[ix];
        let p = match need {
            InNeed::Puback => Pkt::new(v, PUBACK).with_id(id),
            InNeed::Pubrec => Pkt::new(v, PUBREC).with_id(id),
            InNeed::Pubcomp => Pkt::new(v, PUBCOMP).with_id(id),
            InNeed::Suback => {
                let mut p = Pkt::new(v, SUBACK).with_id(id);
                p.rcs = vec![0];
                p
            }
            InNeed::Unsuback => {
                let mut p = Pkt::new(v, UNSUBACK).with_id(id);
                if v == 5 {
                    p.rcs = vec![0];
                }
                p
            }
            InNeed::Pingresp => Pkt::new(v, PINGRESP),
        };
        let evs = self.app_send(side, &p);
        if !evs.iter().any(|e| e.is_error()) {
            self.ends[side.ix()].inbox.remove(ix);
        }
    }

    fn busy(&self) -> bool {
        if !self.pipe[0].is_empty() || !self.pipe[1].is_empty() {
            return true;
        }
        for e in &self.ends {
            if !e.inbox.is_empty() || e.connack_owed || e.w.want_close {
                return true;
            }
            if !e.w.m.out.is_empty() || !e.w.m.subs.is_empty() || !e.w.m.unsubs.is_empty() {
                return true;
            }
        }
        false
    }

    /// Faults and workload stop; the system must become quiescent within the step bound.
    pub fn quiesce(&mut self) {
        let in_flight: usize = self.ends.iter().map(|e| e.w.m.out.len() + e.inbox.len() + e.w.m.subs.len()).sum();
        let budget = 96 + 16 * in_flight;
        let mut steps = 0;
        loop {
            if self.failed() {
                return;
            }
            steps += 1;
            if steps > budget {
                let m = format!("not quiescent after {budget} steps: pipes {}/{} bytes, C out {:?} inbox {:?}, S out {:?} inbox {:?}", self.pipe[0].len(), self.pipe[1].len(), self.ends[0].w.m.out.iter().map(|o| (o.id, o.stage)).collect::<Vec<_>>(), self.ends[0].inbox, self.ends[1].w.m.out.iter().map(|o| (o.id, o.stage)).collect::<Vec<_>>(), self.ends[1].inbox);
                self.flag("no-termination", m);
                return;
            }
            // a dying transport: everybody is told
            let mut progressed = false;
            for side in [Side::C, Side::S] {
                let e = &self.ends[side.ix()];
                if !e.told_closed && (e.w.want_close || !self.up) {
                    // deliver what still arrives, then tell
                    if !self.pipe[side.ix()].is_empty() && !e.w.want_close {
                        self.exec(&POp::Deliver { to: side, n: 0 });
                    } else {
                        self.exec(&POp::Closed { side });
                    }
                    progressed = true;
                    break;
                }
            }
            if progressed {
                continue;
            }
            if !self.up {
                // nothing left to do without a connection?
                let work = self.ends.iter().any(|e| !e.w.m.out.is_empty() || !e.w.m.inq2.is_empty()) || self.server_durable.as_ref().map_or(false, |d| !d.out.is_empty() || !d.inq2.is_empty());
                if !work && self.conn_no > 0 {
                    break;
                }
                self.exec(&POp::Connect);
                continue;
            }
            if !self.pipe[1].is_empty() {
                self.exec(&POp::Deliver { to: Side::S, n: 0 });
                continue;
            }
            if !self.pipe[0].is_empty() {
                self.exec(&POp::Deliver { to: Side::C, n: 0 });
                continue;
            }
            let mut acted = false;
            for side in [Side::S, Side::C] {
                let e = &self.ends[side.ix()];
                let got = e.w.m.out.iter().any(|o| o.stage == Stage::GotPubrec);
                if e.connack_owed || (self.session_ready(side) && (!e.inbox.is_empty() || got)) {
                    let before = self.steps;
                    self.exec(&POp::Act { side, nth: 0 });
                    acted = self.steps > before;
                    break;
                }
            }
            if acted {
                continue;
            }
            break;
        }
        if self.failed() {
            return;
        }
        if self.busy() {
            // e.g. an exchange that nobody will ever complete
            let m = format!("stuck: C out {:?}, S out {:?}, C inbox {:?}, S inbox {:?}", self.ends[0].w.m.out.iter().map(|o| (o.id, o.stage, o.conn)).collect::<Vec<_>>(), self.ends[1].w.m.out.iter().map(|o| (o.id, o.stage, o.conn)).collect::<Vec<_>>(), self.ends[0].inbox, self.ends[1].inbox);
            self.flag("exchange-never-completes", m);
            return;
        }
        self.stats.hit("c01_quiescence_reached");
        // ledger
        let lossless = self.losses == 0;
        let mut err: Option<(String, String)> = None;
        for (t, tg) in &self.tags {
            if !tg.accepted {
                if tg.delivered > 0 && tg.qos > 0 {
                    // refused at the sender yet delivered
                    err = Some(("refused-publish-delivered".into(), format!("tag {t}")));
                    break;
                }
                continue;
            }
            let must = (tg.persistent || !tg.cut) && !tg.dropped;
            match tg.qos {
                2 => {
                    if (must && tg.delivered != 1) || tg.delivered > 1 {
                        // follow-up of K04: the id is still 'handled' at the receiver because an earlier
                        // message with it was delivered and then dropped by the sender at a resume
                        let residue = tg.delivered == 0 && self.tags.iter().any(|(t2, o)| t2 < t && o.from == tg.from && o.qos == 2 && o.id == tg.id && o.dropped && o.delivered > 0);
                        if residue {
                            err = Some(("qos2-stored-copy-dropped-after-delivery".into(), format!("tag {t}: swallowed as a duplicate of an earlier message whose stored copy was dropped as oversize after delivery")));
                            break;
                        }
                        err = Some(("qos2-not-exactly-once".into(), format!("tag {t} from {:?} delivered {} times (cut by a loss: {}, persistent: {})", tg.from, tg.delivered, tg.cut, tg.persistent)));
                        break;
                    }
                }
                1 => {
                    if (must && tg.delivered < 1) || (lossless && tg.delivered != 1) {
                        err = Some(("qos1-not-at-least-once".into(), format!("tag {t} from {:?} delivered {} times (cut: {}, persistent: {}, losses: {})", tg.from, tg.delivered, tg.cut, tg.persistent, self.losses)));
                        break;
                    }
                }
                _ => {
                    if tg.delivered > 1 || (lossless && tg.delivered != 1) {
                        err = Some(("qos0-delivery".into(), format!("tag {t} delivered {} times, losses {}", tg.delivered, self.losses)));
                        break;
                    }
                }
            }
        }
        if let Some((c, m)) = err {
            self.flag(&c, m);
            return;
        }
        // both sides: ids released, stores empty, handled empty, full vacancy
        for side in [Side::C, Side::S] {
            let held: Vec<u32> = self.ends[side.ix()].owned.iter().cloned().collect();
            for id in held {
                let evs = self.ends[side.ix()].w.release(id);
                self.handle(side, &evs, false);
            }
            let e = &self.ends[side.ix()];
            let vs = e.w.ep.state();
            let idle = vs.pid_free.len() == 1 && vs.pid_free[0].0 == 1;
            let stored = e.w.ep.stored();
            let handled = e.w.ep.handled();
            let vac = e.w.ep.vacancy();
            let rm = e.w.m.rm_send;
            if !idle || !e.w.m.ids.is_empty() {
                self.flag("ids-in-use-at-quiescence", format!("{:?}: free list {:?}, announced in use {:?}", side, vs.pid_free, e.w.m.ids));
                return;
            }
            if !stored.is_empty() {
                self.flag("store-not-empty-at-quiescence", format!("{:?}: {:?}", side, stored.iter().map(|p| p.short()).collect::<Vec<_>>()));
                return;
            }
            if !handled.is_empty() {
                // residue of a QoS 2 message that reached the receiver and whose stored copy the
                // sender then dropped as oversize at the resume: no PUBREL will ever come
                let residue = handled.iter().all(|h| self.tags.values().any(|t| t.from != side && t.qos == 2 && t.dropped && t.delivered > 0 && t.id == Some(*h)));
                if residue {
                    self.flag("qos2-stored-copy-dropped-after-delivery", format!("{:?} keeps handled ids {:?}: the sender accepted an alias-only QoS 2 PUBLISH that fits the peer's Maximum Packet Size, the receiver got it, the transport was lost, and at the resume the stored copy (full topic) was dropped as oversize: the exchange is never finished and the id stays 'handled' at the receiver", side, handled));
                } else {
                    self.flag("handled-not-empty-at-quiescence", format!("{:?}: {:?}", side, handled));
                }
                return;
            }
            if self.up && e.w.m.st == St::Connected && self.cfg.wire_v == 5 && vac != rm {
                self.flag("vacancy-not-restored-at-quiescence", format!("{:?}: vacancy {:?}, Receive Maximum {:?}", side, vac, rm));
                return;
            }
        }
    }
}

// ------------------------------------------------------------------ generation

pub fn gen_pcfg(r: &mut Rng, faults: bool) -> PCfg {
    let v5 = r.chance(3, 5);
    let rm = [None, Some(1u16), Some(2), Some(3), Some(65535)];
    let tam = [None, Some(0u16), Some(1), Some(2), Some(5)];
    let mps = [None, None, Some(48u32), Some(64), Some(200)];
    let mut c = PCfg {
        wire_v: if v5 { 5 } else { 4 },
        pid32: r.chance(1, 6),
        any_roles: r.chance(1, 8),
        undet_server: r.chance(1, 8),
        c_auto_pub: r.chance(1, 2),
        s_auto_pub: r.chance(1, 2),
        s_auto_ping: r.chance(1, 2),
        c_auto_map: false,
        c_auto_replace: false,
        s_auto_map: false,
        s_auto_replace: false,
        vectored: r.chance(1, 8),
        persistent: r.chance(2, 3),
        first_clean: r.chance(1, 2),
        ka: *r.pick(&[0u16, 0, 10, 60]),
        pingresp_to_ms: *r.pick(&[0u64, 0, 5000]),
        c_rm: None,
        c_tam: None,
        c_mps: None,
        s_rm: None,
        s_tam: None,
        s_mps: None,
        s_ska: None,
        fresh_server: r.chance(1, 4),
        f_loss: false,
        f_chunk: false,
        f_writefail: false,
        f_timers: false,
    };
    // with manual responses the obligation "PUBREC received, PUBREL owed" lives in the
    // application, not in the export: a broker that replaces the object uses automatic responses
    if c.fresh_server && !c.s_auto_pub {
        c.fresh_server = false;
    }
    if c.undet_server && c.any_roles {
        c.any_roles = false;
    }
    if v5 {
        c.c_auto_map = r.chance(1, 4);
        c.c_auto_replace = !c.c_auto_map && r.chance(1, 4);
        c.s_auto_map = r.chance(1, 4);
        c.s_auto_replace = !c.s_auto_map && r.chance(1, 4);
        c.c_rm = *r.pick(&rm);
        c.s_rm = *r.pick(&rm);
        c.c_tam = *r.pick(&tam);
        c.s_tam = *r.pick(&tam);
        c.c_mps = *r.pick(&mps);
        c.s_mps = *r.pick(&mps);
        if r.chance(1, 6) {
            // smaller than the client's own CONNECT: the limit of a lost connection must not
            // stand in the way of the CONNECT that resumes the session
            c.s_mps = Some(*r.pick(&[26u32, 28, 30]));
        }
        c.s_ska = *r.pick(&[None, None, Some(0u16), Some(5)]);
    }
    if faults {
        c.f_loss = r.chance(3, 4);
        c.f_chunk = r.chance(2, 3);
        c.f_writefail = r.chance(1, 3);
        c.f_timers = r.chance(1, 2);
    }
    c
}

pub fn gen_pop(p: &Pair, r: &mut Rng) -> POp {
    let c = &p.cfg;
    // a side that asked to close, or whose transport died, is told sooner or later
    let mut pending_close = vec![];
    for side in [Side::C, Side::S] {
        let e = &p.ends[side.ix()];
        if !e.told_closed && (e.w.want_close || !p.up || p.ends[side.other().ix()].told_closed) {
            pending_close.push(side);
        }
    }
    if !pending_close.is_empty() && r.chance(1, 2) {
        return POp::Closed { side: *r.pick(&pending_close) };
    }
    if !p.up && p.ends[0].told_closed && p.ends[1].told_closed {
        return POp::Connect;
    }
    let bytes_c = p.pipe[0].len();
    let bytes_s = p.pipe[1].len();
    let ready_c = p.ends[0].connack_done && p.ends[0].w.m.st == St::Connected;
    let ready_s = p.ends[1].connack_done;
    let obl = |e: &End| e.inbox.len() + e.w.m.out.iter().filter(|o| o.stage == Stage::GotPubrec).count() + e.connack_owed as usize;
    let in_flight = bytes_c + bytes_s > 0 || p.ends.iter().any(|e| !e.w.m.out.is_empty());
    let w = [
        if bytes_c > 0 { 30 } else { 0 },
        if bytes_s > 0 { 30 } else { 0 },
        if ready_c { 14 } else { 0 },
        if ready_s { 10 } else { 0 },
        if ready_c { 3 } else { 0 },
        if obl(&p.ends[0]) > 0 { 16 } else { 0 },
        if obl(&p.ends[1]) > 0 { 16 } else { 0 },
        if c.f_timers && p.ends.iter().any(|e| e.deadline.iter().any(|d| d.is_some())) { 3 } else { 0 },
        if c.f_loss && p.up { if in_flight { 4 } else { 1 } } else { 0 },
        if ready_c && c.f_loss { 1 } else { 0 },
    ];
    let v5 = c.wire_v == 5;
    let publish = |r: &mut Rng, side: Side| {
        let tam = p.ends[side.ix()].w.m.tam_send;
        let mut alias = 0u8;
        if v5 && tam > 0 && r.chance(1, 2) {
            let a = r.range(1, tam.min(3) as u64) as u8;
            alias = if r.chance(1, 3) { 0x80 | a } else { a };
        }
        POp::Pub { side, qos: *r.pick(&[0u8, 1, 1, 2, 2]), topic: r.below(3) as u8, alias, pad: if p.ends[side.ix()].w.m.mps_send.is_some() && r.chance(1, 4) { *r.pick(&[crate::solo::PAD_AT_LIMIT_MINUS_4, crate::solo::PAD_AT_LIMIT_MINUS_3, crate::solo::PAD_AT_LIMIT_MINUS_1, crate::solo::PAD_AT_LIMIT, crate::solo::PAD_AT_LIMIT, crate::solo::PAD_AT_LIMIT_PLUS_1]) } else if r.chance(1, 5) { r.below(30) as u16 } else { 0 }, fail: c.f_writefail && r.chance(1, 40) }
    };
    match r.weighted(&w) {
        0 => POp::Deliver { to: Side::C, n: if c.f_chunk && r.chance(1, 2) { r.range(1, 9) as u16 } else { 0 } },
        1 => POp::Deliver { to: Side::S, n: if c.f_chunk && r.chance(1, 2) { r.range(1, 9) as u16 } else { 0 } },
        2 => publish(r, Side::C),
        3 => publish(r, Side::S),
        4 => match r.below(3) {
            0 => POp::Sub,
            1 => POp::Unsub,
            _ => POp::Ping,
        },
        5 => POp::Act { side: Side::C, nth: r.below(6) as u8 },
        6 => POp::Act { side: Side::S, nth: r.below(6) as u8 },
        7 => {
            let mut armed = vec![];
            for side in [Side::C, Side::S] {
                for k in Tk::ALL {
                    if p.ends[side.ix()].deadline[k.ix()].is_some() {
                        armed.push((side, k));
                    }
                }
            }
            let (side, k) = *r.pick(&armed);
            POp::Timer { side, k }
        }
        8 => POp::Lose { keep_c: if r.chance(1, 2) { r.below(bytes_c as u64 + 1) as u16 } else { 0 }, keep_s: if r.chance(1, 2) { r.below(bytes_s as u64 + 1) as u16 } else { 0 } },
        _ => POp::Disconnect { side: if v5 && r.chance(1, 3) { Side::S } else { Side::C } },
    }
}

pub fn pop_kind(o: &POp) -> u8 {
    match o {
        POp::Connect => 1,
        POp::Pub { side, qos, alias, fail, .. } => 10 + side.ix() as u8 * 20 + qos + 3 * (*alias != 0) as u8 + 6 * (*fail as u8),
        POp::Sub => 2,
        POp::Unsub => 3,
        POp::Ping => 4,
        POp::Act { side, .. } => 5 + side.ix() as u8,
        POp::Deliver { to, n } => 60 + to.ix() as u8 + 2 * (*n != 0) as u8,
        POp::Timer { side, k } => 70 + side.ix() as u8 * 3 + k.ix() as u8,
        POp::Lose { keep_c, keep_s } => 80 + (*keep_c != 0) as u8 + 2 * (*keep_s != 0) as u8,
        POp::Closed { side } => 90 + side.ix() as u8,
        POp::Disconnect { side } => 92 + side.ix() as u8,
        POp::Quiesce => 99,
        POp::At { .. } => 100,
        POp::ExpectAlive => 101,
    }
}


/// Time-faithful keep-alive run (C15, bounded liveness): no faults, latency below half the
/// keep-alive, events strictly in simulated-time order for ten keep-alive periods: nobody may
/// be timed out. Returns the executed op list (replayable).
pub fn live_run(p: &mut Pair, r: &mut Rng) -> Vec<POp> {
    let mut ops: Vec<POp> = vec![];
    let mut run = |p: &mut Pair, ops: &mut Vec<POp>, op: POp| {
        ops.push(op.clone());
        p.exec(&op);
    };
    let ka_ms = p.cfg.ka as u64 * 1000;
    let eff_ms = p.cfg.s_ska.map(|s| s as u64 * 1000).unwrap_or(ka_ms);
    let period = if eff_ms > 0 { eff_ms } else { 1000 };
    let latency = r.range(1, (period / 2).saturating_sub(1).max(1));
    // handshake
    run(p, &mut ops, POp::Connect);
    run(p, &mut ops, POp::Deliver { to: Side::S, n: 0 });
    run(p, &mut ops, POp::Act { side: Side::S, nth: 0 });
    run(p, &mut ops, POp::Deliver { to: Side::C, n: 0 });
    let horizon = p.now_ms + 10 * period;
    let mut arrive: [Option<u64>; 2] = [None, None];
    let mut guard = 0;
    while !p.failed() && guard < 400 {
        guard += 1;
        for i in 0..2 {
            if p.pipe[i].is_empty() {
                arrive[i] = None;
            } else if arrive[i].is_none() {
                arrive[i] = Some(p.now_ms + latency);
            }
        }
        // obligations are discharged at once (the applications are not stalled)
        let mut acted = false;
        for side in [Side::S, Side::C] {
            if !p.ends[side.ix()].inbox.is_empty() {
                run(p, &mut ops, POp::Act { side, nth: 0 });
                acted = true;
                break;
            }
        }
        if acted {
            continue;
        }
        // earliest event: an arrival or a timer deadline
        let mut best: Option<(u64, u8, POp)> = None;
        for (i, side) in [(0usize, Side::C), (1, Side::S)] {
            if let Some(t) = arrive[i] {
                if best.as_ref().map_or(true, |b| (t, 0) < (b.0, b.1)) {
                    best = Some((t, 0, POp::Deliver { to: side, n: 0 }));
                }
            }
            for k in Tk::ALL {
                if let Some(d) = p.ends[i].deadline[k.ix()] {
                    if best.as_ref().map_or(true, |b| (d, 1) < (b.0, b.1)) {
                        best = Some((d, 1, POp::Timer { side, k }));
                    }
                }
            }
        }
        // some application traffic now and then
        let Some((t, _, op)) = best else { break };
        if t > horizon {
            break;
        }
        if r.chance(1, 6) && p.now_ms + 1 < t {
            let side = if r.chance(1, 2) { Side::C } else { Side::S };
            let at = r.range(p.now_ms + 1, t);
            run(p, &mut ops, POp::At { ms: at });
            run(p, &mut ops, POp::Pub { side, qos: *r.pick(&[0u8, 1]), topic: 0, alias: 0, pad: 0, fail: false });
            continue;
        }
        run(p, &mut ops, POp::At { ms: t });
        run(p, &mut ops, op);
    }
    run(p, &mut ops, POp::ExpectAlive);
    ops
}
