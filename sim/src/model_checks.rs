// Generic per-list monitors (included into model.rs).

#[derive(Default)]
pub struct Ctx {
    /// ids whose release must be announced in this very list
    pub owed: BTreeSet<u32>,
    /// ids whose release may be announced in this list
    pub allowed: BTreeSet<u32>,
    /// model status before the call
    pub st_before: Option<St>,
    /// the call is a local one (not recv): used for "no call arms a timer while disconnected"
    pub local: bool,
    /// the session was reset inside this call: ids vanish unannounced
    pub session_reset: bool,
    /// skip the store comparison (the handler did it itself)
    pub skip_store: bool,
    /// further properties for which a missing owed release counts (e.g. C14 for an oversize
    /// stored packet that must be dropped with its id released)
    pub owed_props: Vec<&'static str>,
    pub what: String,
}

impl Watch {
    fn st_after(&self) -> St {
        self.m.st
    }

    /// Monitors that apply to every returned event list. `evs` is canonicalised.
    fn common(&mut self, evs: &[Ev], ctx: Ctx) {
        if self.failed() {
            return;
        }
        self.stats.events += evs.len() as u64;
        let what = ctx.what.clone();
        self.note(format!("{what} -> {}", evs_short(evs)));
        if let Some(t) = self.trace.as_mut() {
            // frames are labelled uniformly: strict and lenient runs must yield comparable traces
            let key = if what.starts_with("recv[") { "recv".to_string() } else { what.clone() };
            t.push((key, evs.to_vec()));
        }

        // C05: finite, bounded event list
        let bound = 16 + 2 * (self.m.store.len() + self.m.ids.len() + self.m.out.len());
        if evs.len() > bound {
            self.flag(&["C05"], "event-list-unbounded", format!("{what}: {} events", evs.len()));
            return;
        }
        for e in evs {
            if self.lenient {
                // adversarial input: what the parsers accept and hand on is C04's business
                break;
            }
            match e {
                Ev::Send { pkt, .. } | Ev::Recv { pkt } if pkt.kind == 0 => {
                    self.flag(&[], "harness/undecodable", format!("{what}: {}", pkt.topic));
                    return;
                }
                _ => {}
            }
        }

        // C07 / C16: a QoS 2 PUBLISH handed to the application is, from that moment, in the set
        // the library exports as "handled" (a crash right now must not lose the suppression of
        // its retransmission) - whatever state the connection is in
        for e in evs {
            if let Ev::Recv { pkt } = e {
                if pkt.kind == wire::PUBLISH && pkt.qos == 2 {
                    if let Some(id) = pkt.id {
                        if !self.ep.handled().contains(&id) {
                            self.flag(&["C07", "C16"], "notified-qos2-not-marked-handled", format!("{what}: {} was handed to the application but its id is not in the handled set {:?}", pkt.short(), self.ep.handled()));
                            return;
                        }
                    }
                }
            }
        }

        // C12: the inbound window never holds more than the announced Receive Maximum - in every
        // mode and state (also for frames that crossed a close request)
        if self.use_hook {
            let vs = self.ep.state();
            if let Some(mx) = vs.publish_recv_max {
                if vs.publish_recv.len() > mx as usize {
                    self.flag(&["C12"], "inbound-window-overfull", format!("{what}: {} unanswered inbound QoS>0 publishes {:?}, local Receive Maximum {mx}", vs.publish_recv.len(), vs.publish_recv));
                    return;
                }
            }
        }

        // C19: close after the last packet to flush
        let mut seen_close = false;
        let mut need_close = false;
        for e in evs {
            match e {
                Ev::Close => seen_close = true,
                Ev::Send { pkt, .. } => {
                    if seen_close {
                        self.flag(
                            &["C19"],
                            format!("close-before-send/{}", wire::kind_name(pkt.kind)),
                            format!("{what}: RequestClose precedes {}", pkt.short()),
                        );
                        return;
                    }
                    if pkt.kind == wire::DISCONNECT {
                        need_close = true;
                        self.stats.hit("c19_disconnect_sent");
                        if pkt.rc == Some(0x8d) {
                            self.stats.hit("c19_keepalive_timeout_v5");
                        }
                    }
                    if pkt.kind == wire::CONNACK && pkt.rc_or0() != 0 {
                        need_close = true;
                        self.stats.hit("c19_connack_refusal_sent");
                    }
                }
                _ => {}
            }
        }
        if need_close && !seen_close {
            self.flag(&["C19"], "no-close-with-final-packet", format!("{what}: DISCONNECT / refusing CONNACK without RequestClose: {}", evs_short(evs)));
            return;
        }
        if seen_close {
            self.want_close = true;
            self.stats.hit("c19_close_requested");
        }

        if self.lenient {
            // the protocol model is off: follow the library's status
            self.lenient_resync();
        }
        // C15: timers
        let disc_both = ctx.local && ctx.st_before == Some(St::Disc) && self.st_after() == St::Disc;
        for e in evs {
            match e {
                Ev::TimerCancel(k) => {
                    if !self.m.armed[k.ix()] {
                        self.flag(&["C15"], format!("cancel-unarmed/{k:?}"), format!("{what}: cancel of {k:?} which is not armed"));
                        return;
                    }
                    self.m.armed[k.ix()] = false;
                    self.stats.hit("c15_cancel");
                }
                Ev::TimerReset(k, ms) => {
                    if disc_both {
                        self.flag(&["C15"], format!("armed-while-disconnected/{k:?}"), format!("{what}: local call while disconnected arms {k:?}"));
                        return;
                    }
                    if *ms == 0 {
                        self.flag(&["C15"], format!("zero-duration/{k:?}"), format!("{what}: timer {k:?} armed with 0 ms"));
                        return;
                    }
                    self.m.armed[k.ix()] = true;
                    self.m.armed_ms[k.ix()] = *ms;
                }
                _ => {}
            }
        }
        let sent_disconnect = evs.iter().any(|e| matches!(e, Ev::Send{pkt,..} if pkt.kind==wire::DISCONNECT));
        if sent_disconnect && self.m.armed.iter().any(|a| *a) {
            self.flag(&["C15"], "armed-after-disconnect", format!("{what}: timers {:?} still armed after DISCONNECT was sent", self.m.armed));
            return;
        }

        // C08: announced releases
        let mut released = BTreeSet::new();
        if self.lenient {
            self.lenient_resync();
            return;
        }
        for e in evs {
            if let Ev::Released(x) = e {
                if !self.m.ids.contains(x) || released.contains(x) {
                    self.flag(&["C08"], "release-of-free-id", format!("{what}: NotifyPacketIdReleased({x}) but {x} is not in use (in use: {:?})", self.m.ids));
                    return;
                }
                if !ctx.owed.contains(x) && !ctx.allowed.contains(x) {
                    // at close time this is something half-done on the ending connection reaching
                    // into the session that outlives it (C10)
                    let props: &[&'static str] = if what.starts_with("notify_closed") { &["C08", "C06", "C10"] } else { &["C08", "C06"] };
                    self.flag(props, "unexpected-release", format!("{what}: id {x} released although its exchange is not complete"));
                    return;
                }
                released.insert(*x);
            }
        }
        for x in &ctx.owed {
            if !released.contains(x) {
                let mut props = vec!["C08"];
                props.extend(ctx.owed_props.iter().cloned());
                self.flag(&props, format!("release-not-announced/{}", what.split(|c| c == '(' || c == ' ').next().unwrap_or("")), format!("{what}: id {x} must be released and announced in this list: {}", evs_short(evs)));
                return;
            }
        }
        for x in &released {
            self.m.ids.remove(x);
            self.m.out.retain(|o| o.id != *x);
            self.m.store.retain(|s| s.id != *x);
            self.m.subs.remove(x);
            self.m.unsubs.remove(x);
        }

        self.sync(&what, ctx.skip_store);
    }

    /// Compare the library with the model after a step.
    fn sync(&mut self, what: &str, skip_store: bool) {
        if self.failed() || self.lenient {
            return;
        }
        // C08 / C20: in-use set through the hook, and the representation invariant
        if self.use_hook {
            let vs = self.ep.state();
            let maxid = max_id(self.pid32) as u64;
            let mut prev_hi: Option<u64> = None;
            for (lo, hi) in &vs.pid_free {
                let bad = lo > hi || *lo < 1 || *hi > maxid || prev_hi.map_or(false, |p| *lo <= p + 1);
                if bad {
                    // C20 names the representation; the run goes on with the union of the listed
                    // intervals as the free set, so that what a malformed list does to the ids
                    // themselves (C08) is still observed
                    if self.deferred.is_none() {
                        let step = self.step;
                        self.deferred = Some(Violation { props: vec!["C20"], class: "in-situ-representation".into(), msg: format!("{what}: packet id free list not sorted/disjoint/merged/in range: {:?}", vs.pid_free), step });
                    }
                    break;
                }
                prev_hi = Some(*hi);
            }
            // complement of the union of the free intervals == model ids
            let mut free: Vec<(u64, u64)> = vs.pid_free.iter().map(|(l, h)| ((*l).max(1), (*h).min(maxid))).filter(|(l, h)| l <= h).collect();
            free.sort_unstable();
            let mut used: Vec<u64> = vec![];
            let mut next = 1u64;
            let mut too_many = false;
            for (lo, hi) in &free {
                if *lo > next {
                    if lo - next > 4096 {
                        too_many = true;
                        break;
                    }
                    used.extend(next..*lo);
                }
                next = next.max(hi + 1);
            }
            if !too_many && next <= maxid {
                if maxid + 1 - next > 4096 {
                    too_many = true;
                } else {
                    used.extend(next..=maxid);
                }
            }
            if !too_many {
                let model: Vec<u64> = self.m.ids.iter().map(|x| *x as u64).collect();
                if used != model {
                    let leaked: Vec<&u64> = used.iter().filter(|x| !model.contains(x)).collect();
                    let cls = if !leaked.is_empty() { "id-retained-unannounced" } else { "id-freed-unannounced" };
                    // the same step may have lost stored packets as well (C06's concern)
                    let store_too = !skip_store && {
                        let actual = self.ep.stored();
                        actual.len() != self.m.store.len() || actual.iter().zip(self.m.store.iter()).any(|(a, b)| *a != b.pkt)
                    };
                    let props: &[&'static str] = if store_too { &["C08", "C06"] } else { &["C08"] };
                    self.flag(props, format!("{cls}/{}", what.split(|c| c == '(' || c == ' ').next().unwrap_or("")), format!("{what}: ids in use in the library {:?} but the announced history says {:?}{}", used, model, if store_too { "; the exported store has changed as well" } else { "" }));
                    return;
                }
            }
        }
        // C06: exported store equals the model's
        if !skip_store {
            let actual = self.ep.stored();
            let expect: Vec<&Pkt> = self.m.store.iter().map(|s| &s.pkt).collect();
            let same = actual.len() == expect.len() && actual.iter().zip(expect.iter()).all(|(a, b)| a == *b);
            if !same {
                let a: Vec<String> = actual.iter().map(|p| p.short()).collect();
                let b: Vec<String> = expect.iter().map(|p| p.short()).collect();
                // a stored packet whose id is free is C08's concern as well: the id can be handed out again
                let orphan = actual.iter().any(|p| p.id.map_or(false, |i| !self.m.ids.contains(&i)));
                let props: &[&'static str] = if orphan { &["C06", "C08"] } else { &["C06"] };
                self.flag(props, format!("store-mismatch/{}", what.split(|c| c == '(' || c == ' ').next().unwrap_or("")), format!("{what}: exported store {:?} but expected {:?}", a, b));
                return;
            }
            for s in &self.m.store {
                if !self.m.ids.contains(&s.id) {
                    let id = s.id;
                    self.flag(&["C06"], "stored-id-not-held", format!("{what}: stored packet id {id} is not in use"));
                    return;
                }
            }
        }
        // C12: vacancy
        if self.m.ver == 5 && self.m.st == St::Connected {
            let Some(vac) = self.guarded("get_receive_maximum_vacancy_for_send()", &["C12"], |ep| ep.vacancy()) else { return };
            match self.m.rm_send {
                Some(mx) => {
                    if !self.m.flow_ambiguous {
                        let cnt = self.m.flow_count();
                        let exp = (mx as usize).saturating_sub(cnt) as u16;
                        if vac != Some(exp) {
                            self.flag(&["C12"], "vacancy-mismatch", format!("{what}: vacancy {:?} but Receive Maximum {mx} minus {cnt} incomplete exchanges = {exp}", vac));
                        }
                    }
                }
                None => {
                    if vac.is_some() {
                        self.flag(&["C12"], "vacancy-without-limit", format!("{what}: vacancy {:?} although the peer announced no Receive Maximum", vac));
                    }
                }
            }
        }
    }
}
