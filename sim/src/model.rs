//! Per-endpoint reference model and monitors ("Watch").
//!
//! A `Watch` owns one real connection object (behind `dyn Endpoint`) and is the only code
//! that calls it. Every call is made under `catch_unwind`; the returned events are fed to
//! small reference models written from the MQTT specifications and the property texts
//! (C05..C20), and compared with the library after the step. The first violation ends the
//! run; it is tagged with the properties it counts for.

use crate::ep::*;
use crate::wire::{self, Pkt, Scan};
use std::collections::{BTreeMap, BTreeSet};
use std::panic::{catch_unwind, AssertUnwindSafe};

#[derive(Clone, Debug)]
pub struct Violation {
    /// properties this violation counts for
    pub props: Vec<&'static str>,
    /// structured key: stable under minimisation, used for known-finding matching
    pub class: String,
    pub msg: String,
    pub step: usize,
}

#[derive(Clone, Copy, Debug, PartialEq, Eq)]
pub enum St {
    Disc,
    Connecting,
    Connected,
}

#[derive(Clone, Copy, Debug, PartialEq, Eq)]
pub enum Stage {
    AwaitPuback,
    AwaitPubrec,
    /// PUBREC received, PUBREL not yet sent (manual responses)
    GotPubrec,
    AwaitPubcomp,
}

#[derive(Clone, Debug)]
pub struct Out {
    pub id: u32,
    pub qos: u8,
    pub stage: Stage,
    /// connection number on which it was (re)sent last; 0 = never sent
    pub conn: u32,
    /// connection number on which the exchange was opened
    pub born: u32,
}

#[derive(Clone, Debug, PartialEq, Eq)]
pub struct StoreEnt {
    pub id: u32,
    pub rel: bool,
    /// expected stored packet (PUBLISH: dup set, full topic, no alias)
    pub pkt: Pkt,
}

#[derive(Clone, Debug, Default)]
pub struct Opts {
    pub auto_pub: bool,
    pub auto_ping: bool,
    pub auto_map: bool,
    pub auto_replace: bool,
    pub offline: bool,
    pub pingresp_to_ms: u64,
}

pub struct Model {
    pub role: Role,
    pub ver: u8,
    pub st: St,
    pub is_client: bool,
    pub persistent: bool,
    pub conn_no: u32,
    pub ids: BTreeSet<u32>,
    pub out: Vec<Out>,
    pub store: Vec<StoreEnt>,
    pub subs: BTreeSet<u32>,
    pub unsubs: BTreeSet<u32>,
    pub inq2: BTreeSet<u32>,
    pub in_unans: BTreeSet<u32>,
    pub rm_send: Option<u16>,
    pub rm_recv: Option<u16>,
    pub mps_send: Option<u32>,
    pub mps_recv: Option<u32>,
    pub tam_send: u16,
    pub tam_recv: u16,
    /// what a conformant receiver holds from the PUBLISHes we actually sent
    pub peer_alias: BTreeMap<u16, String>,
    /// what we must hold from the PUBLISHes the peer sent
    pub local_alias: BTreeMap<u16, String>,
    /// what the application bound through accepted sends on this connection, sent or only queued
    pub app_alias: BTreeMap<u16, String>,
    /// QoS>0 publishes accepted between the CONNECT and the CONNACK of the current handshake
    pub queued_connecting: usize,
    pub ka_ms: u64,
    pub ska_ms: Option<u64>,
    pub user_ms: Option<u64>,
    pub srv_to_ms: u64,
    pub armed: [bool; 3],
    pub armed_ms: [u64; 3],
    /// CONNECT of the current connection (sent or received)
    pub connect: Option<Pkt>,
    /// a session reset happened in this step (ids/store cleared without announcements)
    pub flow_ambiguous: bool,
}

impl Model {
    fn new(role: Role, ver: Ver) -> Model {
        Model {
            role,
            ver: ver.num(),
            st: St::Disc,
            is_client: false,
            persistent: false,
            conn_no: 0,
            queued_connecting: 0,
            ids: BTreeSet::new(),
            out: vec![],
            store: vec![],
            subs: BTreeSet::new(),
            unsubs: BTreeSet::new(),
            inq2: BTreeSet::new(),
            in_unans: BTreeSet::new(),
            rm_send: None,
            rm_recv: None,
            mps_send: None,
            mps_recv: None,
            tam_send: 0,
            tam_recv: 0,
            peer_alias: BTreeMap::new(),
            local_alias: BTreeMap::new(),
            app_alias: BTreeMap::new(),
            ka_ms: 0,
            ska_ms: None,
            user_ms: None,
            srv_to_ms: 0,
            armed: [false; 3],
            armed_ms: [0; 3],
            connect: None,
            flow_ambiguous: false,
        }
    }
    pub fn ping_interval(&self) -> u64 {
        self.user_ms.or(self.ska_ms).unwrap_or(self.ka_ms)
    }
    /// incomplete outbound exchanges of the current connection
    pub fn flow_count(&self) -> usize {
        self.out.iter().filter(|o| o.conn == self.conn_no).count()
    }
    fn new_session(&mut self) {
        self.ids.clear();
        self.out.clear();
        self.store.clear();
        self.inq2.clear();
    }
    fn new_connection(&mut self) {
        self.conn_no += 1;
        self.queued_connecting = 0;
        self.rm_send = None;
        self.rm_recv = None;
        self.mps_send = None;
        self.mps_recv = None;
        self.tam_send = 0;
        self.tam_recv = 0;
        self.peer_alias.clear();
        self.local_alias.clear();
        self.app_alias.clear();
        self.in_unans.clear();
        self.subs.clear();
        self.unsubs.clear();
        self.ska_ms = None;
        self.flow_ambiguous = false;
    }
}

#[derive(Default, Clone)]
pub struct Stats {
    pub probes: BTreeMap<&'static str, u64>,
    pub calls: u64,
    pub frames: u64,
    pub events: u64,
    pub round_trips: u64,
}
impl Stats {
    pub fn hit(&mut self, k: &'static str) {
        *self.probes.entry(k).or_insert(0) += 1;
    }
    pub fn merge(&mut self, o: &Stats) {
        for (k, v) in &o.probes {
            *self.probes.entry(k).or_insert(0) += v;
        }
        self.calls += o.calls;
        self.frames += o.frames;
        self.events += o.events;
        self.round_trips += o.round_trips;
    }
}

pub struct Watch {
    pub ep: Box<dyn Endpoint>,
    pub role: Role,
    pub ver0: Ver,
    pub pid32: bool,
    pub idw: usize,
    pub opts: Opts,
    pub m: Model,
    pub viol: Option<Violation>,
    /// a representation finding that does not stop the run (see sync): reported for its own
    /// property, while the run goes on so that its consequences for other properties show
    pub deferred: Option<Violation>,
    pub stats: Stats,
    /// adversarial mode: the protocol model is off, only model-free oracles decide
    pub lenient: bool,
    pub vectored: bool,
    pub step: usize,
    /// bytes received on the current transport that are not yet part of a completed frame
    rx: Vec<u8>,
    /// readable log of the last calls (for replay files)
    pub log: Vec<String>,
    /// name of the label used in the log
    pub name: &'static str,
    /// the application must report the transport closed (a RequestClose was returned)
    pub want_close: bool,
    /// use the verif_state hook for cross-checks
    pub use_hook: bool,
    /// topic the application meant with the PUBLISH it is sending right now
    pending_intended: Option<String>,
    /// when set: every library call with its canonical event list (twin comparisons)
    pub trace: Option<Vec<(String, Vec<Ev>)>>,
    /// when set: the concrete calls made (C09 re-chunking)
    pub calls: Option<Vec<WCall>>,
    /// C09: after adversarial input keep feeding although a close was requested
    /// ("framing resumes at the next byte" can only be observed that way)
    pub read_past_close: bool,
}

/// A concrete call on the connection object (lowest-level, fully determined script).
#[derive(Clone, Debug, PartialEq)]
pub enum WCall {
    Send(Pkt),
    Feed(Vec<u8>),
    Timer(Tk),
    Closed,
    Acquire,
    Register(u32),
    Release(u32),
    Erase(u32),
    SetPing(Option<u64>),
    SetPingresp(u64),
    SetAuto(u8, bool),
    Crash(ExportMangle),
    /// from here on the protocol model is off (adversarial input follows)
    Lenient,
    /// a transport write failed: the flow-control bookkeeping of this connection is void
    WriteFailed,
}

thread_local! {
    pub static LAST_PANIC: std::cell::RefCell<String> = const { std::cell::RefCell::new(String::new()) };
}

pub fn install_panic_hook() {
    std::panic::set_hook(Box::new(|info| {
        let msg = if let Some(s) = info.payload().downcast_ref::<&str>() {
            s.to_string()
        } else if let Some(s) = info.payload().downcast_ref::<String>() {
            s.clone()
        } else {
            "panic".to_string()
        };
        let loc = info
            .location()
            .map(|l| format!("{}:{}", l.file().rsplit('/').next().unwrap_or(""), l.line()))
            .unwrap_or_default();
        LAST_PANIC.with(|p| *p.borrow_mut() = format!("{msg} @ {loc}"));
    }));
}

fn max_id(pid32: bool) -> u32 {
    if pid32 {
        u32::MAX
    } else {
        65535
    }
}

impl Watch {
    pub fn new(name: &'static str, role: Role, ver: Ver, pid32: bool, opts: Opts) -> Watch {
        let mut ep = new_endpoint(role, ver, pid32);
        ep.set_auto_pub_response(opts.auto_pub);
        ep.set_auto_ping_response(opts.auto_ping);
        ep.set_auto_map(opts.auto_map);
        ep.set_auto_replace(opts.auto_replace);
        if opts.offline {
            ep.set_offline_publish(true);
        }
        if opts.pingresp_to_ms != 0 {
            ep.set_pingresp_recv_timeout(opts.pingresp_to_ms);
        }
        let idw = ep.idw();
        Watch {
            ep,
            role,
            ver0: ver,
            pid32,
            idw,
            opts,
            m: Model::new(role, ver),
            viol: None,
            deferred: None,
            stats: Stats::default(),
            lenient: false,
            vectored: false,
            step: 0,
            rx: vec![],
            log: vec![],
            name,
            want_close: false,
            use_hook: true,
            pending_intended: None,
            trace: None,
            calls: None,
            read_past_close: false,
        }
    }

    pub fn failed(&self) -> bool {
        self.viol.is_some()
    }

    /// the application has stopped reading from the transport
    pub fn stopped_reading(&self) -> bool {
        self.want_close && !(self.read_past_close && self.lenient)
    }

    pub fn write_failed(&mut self) {
        self.m.flow_ambiguous = true;
        if let Some(c) = self.calls.as_mut() {
            c.push(WCall::WriteFailed);
        }
    }

    pub fn set_lenient(&mut self) {
        if !self.lenient {
            self.lenient = true;
            if let Some(c) = self.calls.as_mut() {
                c.push(WCall::Lenient);
            }
        }
    }

    pub fn flag(&mut self, props: &[&'static str], class: impl Into<String>, msg: impl Into<String>) {
        if self.viol.is_none() {
            let mut msg: String = msg.into();
            if msg.len() > 700 {
                let cut = (0..=700).rev().find(|i| msg.is_char_boundary(*i)).unwrap_or(0);
                msg.truncate(cut);
                msg.push_str(" ...");
            }
            self.viol = Some(Violation {
                props: props.to_vec(),
                class: class.into(),
                msg,
                step: self.step,
            });
        }
    }

    fn note(&mut self, s: String) {
        if self.log.len() >= 400 {
            self.log.drain(0..100);
        }
        self.log.push(format!("{:>4} {} {}", self.step, self.name, s));
    }

    fn guarded<T>(
        &mut self,
        what: &str,
        extra: &[&'static str],
        f: impl FnOnce(&mut Box<dyn Endpoint>) -> T,
    ) -> Option<T> {
        self.step += 1;
        self.stats.calls += 1;
        let r = catch_unwind(AssertUnwindSafe(|| f(&mut self.ep)));
        match r {
            Ok(v) => Some(v),
            Err(_) => {
                let m = LAST_PANIC.with(|p| p.borrow().clone());
                let mut props = vec!["C05"];
                props.extend_from_slice(extra);
                if m.contains("overflow") {
                    props.push("C12");
                }
                let loc = m.rsplit(" @ ").next().unwrap_or("").to_string();
                self.note(format!("{what} -> PANIC {m}"));
                self.flag(&props, format!("panic/{}/{}", what.split('(').next().unwrap_or(what), loc), format!("{what} panicked: {m}"));
                None
            }
        }
    }
}

include!("model_checks.rs");
include!("model_calls.rs");
