//! Solo driver: one real connection object, a local application stub that honours the usage
//! contract (DESIGN 2.4), and a scripted, protocol-aware peer whose frames are produced by
//! the harness's own wire encoder. Every action is an `Op`; the executed op list is the
//! replay file.

use crate::ep::*;
use crate::model::*;
use crate::rng::Rng;
use crate::wire::{self, Pkt, Prop};
use serde::{Deserialize, Serialize};

#[derive(Clone, Debug, Serialize, Deserialize, PartialEq)]
pub struct Cfg {
    pub role: Role,
    pub ver: Ver,
    /// E acts as client (sends CONNECT) or as server
    pub as_client: bool,
    pub pid32: bool,
    pub auto_pub: bool,
    pub auto_ping: bool,
    pub auto_map: bool,
    pub auto_replace: bool,
    pub offline: bool,
    pub pingresp_to_ms: u64,
    pub vectored: bool,
    pub lenient: bool,
    pub ka: u16,
    /// protocol version used on the wire (for an undetermined server: what the client speaks)
    pub wire_v: u8,
    pub sei: Option<u32>,
    pub c_rm: Option<u16>,
    pub c_tam: Option<u16>,
    pub c_mps: Option<u32>,
    pub s_rm: Option<u16>,
    pub s_tam: Option<u16>,
    pub s_mps: Option<u32>,
    pub s_ska: Option<u16>,
    pub s_sei: Option<u32>,
    /// generator may emit ops that trigger recorded known findings
    pub known_triggers: bool,
    /// which fault kinds the generator may use
    pub f_loss: bool,
    pub f_crash: bool,
    pub f_wrongack: bool,
    pub f_dup: bool,
    pub f_writefail: bool,
    pub f_chunk: bool,
}

impl Cfg {
    pub fn basic(role: Role, ver: Ver, as_client: bool) -> Cfg {
        Cfg {
            role,
            ver,
            as_client,
            pid32: false,
            auto_pub: false,
            auto_ping: false,
            auto_map: false,
            auto_replace: false,
            offline: false,
            pingresp_to_ms: 0,
            vectored: false,
            lenient: false,
            ka: 0,
            wire_v: if ver == Ver::V4 { 4 } else { 5 },
            sei: None,
            c_rm: None,
            c_tam: None,
            c_mps: None,
            s_rm: None,
            s_tam: None,
            s_mps: None,
            s_ska: None,
            s_sei: None,
            known_triggers: false,
            f_loss: false,
            f_crash: false,
            f_wrongack: false,
            f_dup: false,
            f_writefail: false,
            f_chunk: false,
        }
    }
    pub fn opts(&self) -> Opts {
        Opts {
            auto_pub: self.auto_pub,
            auto_ping: self.auto_ping,
            auto_map: self.auto_map,
            auto_replace: self.auto_replace,
            offline: self.offline,
            pingresp_to_ms: self.pingresp_to_ms,
        }
    }
    pub fn connect_pkt(&self, clean: bool) -> Pkt {
        let mut p = Pkt::new(self.wire_v, wire::CONNECT);
        p.client_id = "cid".into();
        p.clean = clean;
        p.keep_alive = self.ka;
        if self.wire_v == 5 {
            if let Some(x) = self.sei {
                p.props.push(Prop::SessionExpiry(x));
            }
            if let Some(x) = self.c_rm {
                p.props.push(Prop::ReceiveMax(x));
            }
            if let Some(x) = self.c_mps {
                p.props.push(Prop::MaxPacketSize(x));
            }
            if let Some(x) = self.c_tam {
                p.props.push(Prop::TopicAliasMax(x));
            }
        }
        p
    }
    pub fn connack_pkt(&self, sp: bool, rc: u8) -> Pkt {
        let mut p = Pkt::new(self.wire_v, wire::CONNACK);
        p.sp = sp && rc == 0;
        p.rc = Some(rc);
        if self.wire_v == 5 && rc == 0 {
            if let Some(x) = self.s_sei {
                p.props.push(Prop::SessionExpiry(x));
            }
            if let Some(x) = self.s_rm {
                p.props.push(Prop::ReceiveMax(x));
            }
            if let Some(x) = self.s_mps {
                p.props.push(Prop::MaxPacketSize(x));
            }
            if let Some(x) = self.s_tam {
                p.props.push(Prop::TopicAliasMax(x));
            }
            if let Some(x) = self.s_ska {
                p.props.push(Prop::ServerKeepAlive(x));
            }
        }
        p
    }
}

pub const TOPICS: [&str; 3] = ["t0", "t/1", "topic/2"];
pub const TIGHT_MPS: u32 = 20;
/// symbolic pads start here: PAD_AT_LIMIT - k sizes the packet to k bytes under the limit
/// PAD_PROPS_MIN + k (k = 0..=9): a User Property brings the property section to 122 + k bytes
/// (v5.0), so that three more bytes of Topic Alias cross the 127/128 length boundary
pub const PAD_PROPS_MIN: u16 = 0xffe0;
pub const PAD_SYMBOLIC_MIN: u16 = 0xfff8;
pub const PAD_AT_LIMIT_MINUS_4: u16 = 0xfffa;
pub const PAD_AT_LIMIT_MINUS_3: u16 = 0xfffb;
pub const PAD_AT_LIMIT_MINUS_1: u16 = 0xfffd;
pub const PAD_AT_LIMIT: u16 = 0xfffe;
pub const PAD_AT_LIMIT_PLUS_1: u16 = 0xffff;

#[derive(Clone, Debug, Serialize, Deserialize, PartialEq)]
pub enum Op {
    /// start a connection: E client sends CONNECT / peer sends CONNECT to E server
    Connect { clean: bool },
    /// E client: peer sends CONNACK; E server: application sends CONNACK
    Connack { sp: bool, rc: u8 },
    /// application publishes. alias: 0 none, n = topic + alias n, 0x80|n = alias only
    Pub { qos: u8, topic: u8, alias: u8, pad: u16, fail: bool },
    Sub,
    Unsub,
    Ping,
    Disconnect { rc: u8 },
    Auth,
    /// peer acknowledges the nth outbound exchange. how: 0 match, 1 wrong kind, 2 unknown id, 3 duplicate of the last matching ack
    PeerAck { nth: u8, how: u8, rc: u8 },
    /// manual PUBREL for the nth exchange that got its PUBREC
    AppPubrel { nth: u8 },
    /// manual PUBREL carrying a Reason String (v5.0): larger than a tight Maximum Packet Size
    AppPubrelBig { nth: u8 },
    /// manual PUBREL carrying a failure reason code (v5.0, 0x92 Packet Identifier not found): the
    /// exchange still awaits its PUBCOMP, so the packet is stored and re-sent like any other PUBREL
    AppPubrelRc { nth: u8 },
    PeerPub { qos: u8, id: u32, dup: bool, topic: u8, alias: u8, pad: u16 },
    PeerPubrel { id: u32 },
    /// manual PUBACK / PUBREC / PUBCOMP for the nth unanswered inbound packet
    AppAck { nth: u8, err: bool },
    /// peer answers the nth pending SUBSCRIBE/UNSUBSCRIBE (wrong = unknown id)
    PeerSuback { nth: u8, wrong: bool },
    /// peer sends a parameterless packet: PINGREQ, PINGRESP, DISCONNECT, AUTH, SUBSCRIBE, UNSUBSCRIBE
    PeerSimple { kind: u8 },
    /// application answers a received SUBSCRIBE/UNSUBSCRIBE/PINGREQ
    AppAnswer,
    Erase { nth: u8 },
    Acquire,
    Register { id: u32 },
    /// release an id the application holds but has not used
    Release { nth: u8 },
    /// release_packet_id with an arbitrary value (0, free ids): totality
    ReleaseRaw { id: u32 },
    Timer { k: Tk },
    SetPing { ms: Option<u64> },
    /// set_pingresp_recv_timeout while running (0 disables)
    SetPingresp { ms: u64 },
    /// toggle an automatic-behaviour option while running: 0 auto_pub_response, 1 auto_ping_response,
    /// 2 auto_map_topic_alias_send, 3 auto_replace_topic_alias_send, 4 offline publishing re-asserted
    /// with its current value
    SetAuto { which: u8, on: bool },
    /// transport coalescing: the next frame of the peer shares its buffer with a second frame
    /// (PUBLISH of the given QoS and id; qos 3 = PINGREQ when the peer is a client)
    Coalesce { qos: u8, id: u32 },
    /// the application hands over an id-carrying packet whose id it never obtained (the id that
    /// acquire would hand out next): 0 SUBSCRIBE, 1 UNSUBSCRIBE, 2 PUBLISH QoS 1, 3 PUBLISH QoS 2, 4 PUBREL
    SendUnowned { kind: u8 },
    /// a server application hands over a CONNACK with another Server Keep Alive although no
    /// CONNECT is pending (established connection, or none at all): refused, changes nothing
    ConnackAgain { ska: u16 },
    /// SUBSCRIBE / UNSUBSCRIBE whose transport write fails while the connection carries on: the
    /// application gives the id back as `release_packet_id_if_send_error` tells it to
    SubFailContinue { unsub: bool },
    /// the application answers an inbound PUBLISH / PUBREL with a long Reason String (v5.0)
    AppAckBig { nth: u8 },
    /// ... or with the success-class reason code 0x10 "No matching subscribers" (PUBACK / PUBREC, v5.0)
    AppAckSoft { nth: u8 },
    /// like PeerAfterClose, with a QoS 1 / 2 PUBLISH that crossed the close request on the wire
    PeerPubAfterClose { qos: u8, id: u32 },
    /// a server's transport is lost while the first `cut` bytes of the client's CONNECT are all
    /// that has arrived; the application reports the loss
    PartialConnectLoss { cut: u8 },
    /// the first `cut` bytes of a PUBLISH arrive, then an armed timer fires, then the rest arrives
    PartialThenTimer { cut: u8, k: Tk },
    Advance { ms: u64 },
    /// the transport is lost; `partial` > 0: the peer's next frame is cut after that many bytes first
    Close { partial: u16 },
    Crash,
    /// raw bytes from the peer
    PeerRaw { bytes: Vec<u8> },
    /// peer frames are delivered in buffers of n bytes (0 = one frame per buffer)
    SetChunk { n: u16 },
    /// a QoS>0 publish whose transport write fails without killing the connection (the
    /// application releases the id as instructed and carries on)
    PubFailContinue { qos: u8, topic: u8, reg: u32 },
    /// PUBREL from the peer carrying a reason code (v5.0)
    PeerPubrelRc { id: u32, rc: u8 },
    /// one more frame of the peer that was already in the receive buffer when the connection
    /// asked to close: the application finishes the buffer (model-free oracles from here on)
    PeerAfterClose { kind: u8 },
    /// a second CONNECT on the established connection, announcing other limits (must be refused
    /// and change nothing)
    ConnectAgain,
    /// DISCONNECT carrying a long Reason String (v5.0): larger than a small Maximum Packet Size
    DisconnectBig,
    /// u16 ids: acquire every identifier 1..=65535, expect exhaustion to be reported, release and
    /// re-acquire one, release everything
    ExhaustIds,
    /// role Any: play the other side of the protocol on the next connection
    SwapSide,
    /// regulate_for_store on a v5 PUBLISH (alias: 0 none, n = topic + alias, 0x80|n alias only)
    Regulate { topic: u8, alias: u8 },
    /// the following connections are negotiated with / without properties and keep-alive
    SetAlt { on: bool },
    /// the following connections announce a tight Maximum Packet Size (v5.0) in both directions
    SetTight { on: bool },
    /// stop workload and faults, complete every exchange, check quiescence
    Drain,
    /// the transport is lost and the application forgets everything a crash would lose:
    /// unused ids and exchanges whose PUBREC arrived but whose PUBREL was never sent
    Forget,
}

#[derive(Clone, Copy, Debug, PartialEq, Eq)]
pub enum InNeed {
    Puback,
    Pubrec,
    Pubcomp,
    Suback,
    Unsuback,
    Pingresp,
}

pub struct Solo {
    pub cfg: Cfg,
    pub w: Watch,
    /// received and not yet answered by the application: (id, what is owed)
    pub inbox: Vec<(u32, InNeed)>,
    /// ids the application obtained (acquire/register) and has not yet handed to a send
    pub owned: std::collections::BTreeSet<u32>,
    pub chunk: u16,
    /// the peer's next frame arrives in one buffer together with a following frame (qos, id)
    pub coalesce: Option<(u8, u32)>,
    pub now_ms: u64,
    pub deadline: [Option<u64>; 3],
    pub tag: u32,
    pub last_ack: Option<Pkt>,
    /// inbound QoS2 ids the peer has in flight (PUBLISH sent, PUBREL not yet)
    pub peer_q2: Vec<u32>,
    pub peer_next_id: u32,
    pub faults: std::collections::BTreeMap<&'static str, u64>,
    pub connects: u32,
    pub ops_done: usize,
    /// the next connections announce no properties and keep-alive 0 (connection-scoped
    /// state of the previous connection must not fill the gaps)
    pub alt: u8,
    /// which side of the protocol E plays on the next / current connection (role Any may alternate)
    pub acting_client: bool,
}

impl Solo {
    pub fn new(cfg: Cfg) -> Solo {
        let mut w = Watch::new("E", cfg.role, cfg.ver, cfg.pid32, cfg.opts());
        w.lenient = cfg.lenient;
        w.vectored = cfg.vectored;
        let acting = cfg.as_client;
        let mut s = Solo {
            cfg,
            w,
            inbox: vec![],
            owned: Default::default(),
            chunk: 0,
            coalesce: None,
            now_ms: 0,
            deadline: [None; 3],
            tag: 0,
            last_ack: None,
            peer_q2: vec![],
            peer_next_id: 1,
            faults: Default::default(),
            connects: 0,
            ops_done: 0,
            alt: 0,
            acting_client: true,
        };
        s.acting_client = acting;
        s
    }

    /// ids the application holds without having handed them to an accepted send
    pub fn held(&self) -> Vec<u32> {
        self.owned.iter().cloned().collect()
    }

    fn take_id(&mut self) -> Option<u32> {
        match self.owned.iter().next_back().cloned() {
            Some(i) => Some(i),
            None => {
                let i = self.w.acquire()?;
                self.owned.insert(i);
                Some(i)
            }
        }
    }

    /// send a packet that carries an application-owned id: the id passes to the library
    /// unless the send is refused without the id being released
    fn app_send_with_id(&mut self, p: &Pkt) -> Vec<Ev> {
        let id = p.id.unwrap();
        self.owned.remove(&id);
        let evs = self.app_send(p);
        let refused = evs.iter().any(|e| e.is_error());
        let released = evs.iter().any(|e| matches!(e, Ev::Released(x) if *x == id));
        if refused && !released && !self.w.failed() {
            self.owned.insert(id);
        }
        evs
    }

    /// the peer can transmit: a transport exists and E has not asked to close it
    fn peer_up(&self) -> bool {
        (self.w.m.st != St::Disc || (self.w.read_past_close && self.w.lenient && self.w.want_close)) && !self.w.stopped_reading()
    }

    fn fault(&mut self, k: &'static str) {
        *self.faults.entry(k).or_insert(0) += 1;
    }

    fn v(&self) -> u8 {
        self.cfg.wire_v
    }

    /// the application handles an event list in order
    fn handle(&mut self, evs: &[Ev]) {
        for e in evs {
            match e {
                Ev::TimerReset(k, ms) => self.deadline[k.ix()] = Some(self.now_ms + ms),
                Ev::TimerCancel(k) => self.deadline[k.ix()] = None,
                Ev::Recv { pkt } => self.on_delivered(pkt),
                Ev::Released(id) => {
                    self.owned.remove(id);
                }
                _ => {}
            }
        }
    }

    fn on_delivered(&mut self, p: &Pkt) {
        use wire::*;
        match p.kind {
            PUBLISH => {
                if !self.w.opts.auto_pub {
                    if let Some(id) = p.id {
                        if p.qos == 1 {
                            self.inbox.push((id, InNeed::Puback));
                        } else if p.qos == 2 {
                            self.inbox.push((id, InNeed::Pubrec));
                        }
                    }
                }
            }
            PUBREL => {
                if !self.w.opts.auto_pub {
                    if let Some(id) = p.id {
                        self.inbox.push((id, InNeed::Pubcomp));
                    }
                }
            }
            SUBSCRIBE => self.inbox.push((p.id.unwrap_or(0), InNeed::Suback)),
            UNSUBSCRIBE => self.inbox.push((p.id.unwrap_or(0), InNeed::Unsuback)),
            PINGREQ => {
                if !self.w.opts.auto_ping {
                    self.inbox.push((0, InNeed::Pingresp));
                }
            }
            _ => {}
        }
    }

    fn app_send(&mut self, p: &Pkt) -> Vec<Ev> {
        let evs = self.w.send(p);
        self.handle(&evs);
        evs
    }

    /// the peer transmits a frame; it is delivered to E in buffers per the chunk setting
    fn peer_send(&mut self, p: &Pkt) {
        let mut bytes = wire::encode(p, self.w.idw);
        if let Some((qos, id)) = self.coalesce.take() {
            if !self.w.stopped_reading() && !self.cfg.lenient {
                use wire::*;
                let v = self.v();
                let second = if qos == 3 {
                    if self.acting_client { Pkt::new(v, PINGRESP) } else { Pkt::new(v, PINGREQ) }
                } else {
                    let mut q = Pkt::new(v, PUBLISH);
                    q.qos = qos;
                    if qos > 0 {
                        q.id = Some(id);
                    }
                    q.topic = TOPICS[0].into();
                    q.payload = self.payload(0);
                    if qos == 2 && !self.peer_q2.contains(&id) {
                        self.peer_q2.push(id);
                    }
                    q
                };
                bytes.extend_from_slice(&wire::encode(&second, self.w.idw));
                self.fault("coalesced_frames");
            }
        }
        self.peer_bytes(&bytes);
    }

    fn peer_bytes(&mut self, bytes: &[u8]) {
        if self.w.stopped_reading() {
            return;
        }
        let n = if self.chunk == 0 { bytes.len().max(1) } else { self.chunk as usize };
        if n < bytes.len() {
            self.fault("fragmentation");
        }
        for c in bytes.chunks(n) {
            let lists = self.w.feed(c);
            for l in lists {
                self.handle(&l);
            }
            if self.w.failed() || self.w.stopped_reading() {
                break;
            }
        }
    }

    fn connected(&self) -> bool {
        self.w.m.st == St::Connected
    }

    fn payload(&mut self, pad: u16) -> Vec<u8> {
        self.tag += 1;
        let mut s = format!("m{}", self.tag).into_bytes();
        if pad < PAD_PROPS_MIN {
            s.extend(std::iter::repeat(b'x').take(pad as usize));
        }
        s
    }

    /// symbolic pads: size the packet to the limit the receiver announced, or one off
    fn pad_to_limit(&self, p: &mut Pkt, pad: u16, limit: Option<u32>) {
        if pad < PAD_SYMBOLIC_MIN {
            return;
        }
        let Some(l) = limit else { return };
        let want = l as i64 + (pad as i64 - PAD_AT_LIMIT as i64);
        let base = wire::encode(p, self.w.idw).len() as i64;
        let extra = want - base;
        if extra > 0 && extra < 400 {
            p.payload.extend(std::iter::repeat(b'x').take(extra as usize));
        }
    }

    fn do_close(&mut self) {
        let evs = self.w.closed();
        self.handle(&evs);
        self.deadline = [None; 3];
        // owed responses for received packets are dropped with the transport
        self.inbox.clear();
        // ids of exchanges that got their PUBREC but whose PUBREL was never sent: in a
        // non-persistent session the application gives them back itself
        if !self.w.m.persistent && !self.w.lenient {
            let stale: Vec<u32> = self.w.m.out.iter().filter(|o| o.stage == Stage::GotPubrec).map(|o| o.id).collect();
            for id in stale {
                if self.w.m.ids.contains(&id) {
                    let evs = self.w.release(id);
                    self.handle(&evs);
                }
            }
            self.peer_q2.clear();
        }
    }

    pub fn exec(&mut self, op: &Op) {
        use wire::*;
        if self.w.failed() {
            return;
        }
        self.ops_done += 1;
        let v = self.v();
        match op {
            Op::Connect { clean } => {
                if self.w.want_close {
                    return;
                }
                let mut p = self.cfg.connect_pkt(*clean);
                if self.alt == 1 {
                    p.props.clear();
                    p.keep_alive = 0;
                } else if self.alt == 2 && self.cfg.wire_v == 5 {
                    p.props.retain(|x| !matches!(x, Prop::MaxPacketSize(_)));
                    p.props.push(Prop::MaxPacketSize(TIGHT_MPS));
                }
                let fresh = self.w.m.st == St::Disc;
                let before = self.w.step;
                // the bookkeeping below belongs to the CONNECT alone: no second frame in its buffer
                self.coalesce = None;
                if self.acting_client {
                    let evs = self.app_send(&p);
                    if self.w.lenient && fresh && self.w.ep.version() != 0 && !self.w.failed() && !(evs.iter().any(|e| matches!(e, Ev::Send { pkt, .. } if pkt.kind == CONNECT)) && !evs.iter().any(|e| e.is_error())) {
                        self.w.flag(&["C05", "C10"], "new-connection-refused-after-close", format!("send(CONNECT) on a closed connection object: {}", evs_short(&evs)));
                    }
                } else {
                    self.peer_send(&p);
                    if self.w.lenient && fresh && !self.w.failed() && self.w.step > before && self.w.m.st != St::Connecting {
                        self.w.flag(&["C05", "C10"], "new-connection-refused-after-close", "a valid CONNECT on a closed connection object was not accepted");
                    }
                }
                if self.w.lenient && fresh && !self.w.failed() {
                    self.w.stats.hit("c05_reconnect_after_adversary");
                }
                // a CONNECT that was refused (e.g. a second one on an established connection)
                // starts nothing
                if fresh && self.w.m.st != St::Disc {
                    self.connects += 1;
                    if *clean {
                        self.peer_q2.clear();
                        self.owned.clear();
                    }
                }
            }
            Op::Connack { sp, rc } => {
                if self.w.want_close {
                    return;
                }
                // a CONNACK that no CONNECT asked for is outside every statement
                if self.acting_client && self.w.m.st == St::Disc && !self.cfg.lenient {
                    return;
                }
                let mut p = self.cfg.connack_pkt(*sp, *rc);
                if !self.acting_client {
                    // a Session Expiry override is only explored where the library interprets it (received CONNACK)
                    p.props.retain(|x| !matches!(x, Prop::SessionExpiry(_)));
                }
                if self.alt == 1 {
                    p.props.clear();
                } else if self.alt == 2 && self.cfg.wire_v == 5 && p.rc_or0() == 0 {
                    p.props.retain(|x| !matches!(x, Prop::MaxPacketSize(_)));
                    p.props.push(Prop::MaxPacketSize(TIGHT_MPS));
                }
                let was = self.w.m.st;
                if self.acting_client {
                    self.peer_send(&p);
                } else {
                    self.app_send(&p);
                }
                if was == St::Connecting && self.w.m.st == St::Connected && (!p.sp || p.prop_sei() == Some(0)) {
                    self.peer_q2.clear();
                    self.owned.clear();
                }
            }
            Op::Pub { qos, topic, alias, pad, fail } => {
                let mut p = Pkt::new(v, PUBLISH);
                p.qos = *qos;
                let t = TOPICS[*topic as usize % TOPICS.len()];
                if alias & 0x80 != 0 {
                    p.props.push(Prop::TopicAlias((alias & 0x7f) as u16));
                } else {
                    p.topic = t.into();
                    if *alias != 0 {
                        p.props.push(Prop::TopicAlias(*alias as u16));
                    }
                }
                if v == 4 {
                    p.props.clear();
                    p.topic = t.into();
                }
                p.payload = self.payload(*pad);
                if v == 5 && (PAD_PROPS_MIN..PAD_SYMBOLIC_MIN).contains(pad) {
                    let have: usize = if p.alias().is_some() { 3 } else { 0 };
                    let want = 122 + (*pad - PAD_PROPS_MIN) as usize;
                    // User Property: id + two length-prefixed strings ("k", value)
                    p.props.push(Prop::User("k".into(), "u".repeat(want - have - 6)));
                }
                if *qos > 0 {
                    let Some(id) = self.take_id() else { return };
                    p.id = Some(id);
                }
                let lim = self.w.m.mps_send;
                self.pad_to_limit(&mut p, *pad, lim);
                let evs = if p.id.is_some() { self.app_send_with_id(&p) } else { self.app_send(&p) };
                if *fail {
                    // the transport rejects the write: honour release_packet_id_if_send_error, then the transport is dead
                    let mut any = false;
                    for e in &evs {
                        if let Ev::Send { rel, .. } = e {
                            any = true;
                            if let Some(id) = rel {
                                // the failed write kills the connection; its flow-control bookkeeping is void
                                self.w.write_failed();
                                let r = self.w.release(*id);
                                self.handle(&r);
                                self.w.stats.hit("write_fail_released");
                            }
                        }
                    }
                    if any {
                        self.fault("write_failure");
                        self.do_close();
                    }
                }
            }
            Op::SubFailContinue { unsub } => {
                if !self.connected() || self.w.want_close || self.w.lenient {
                    return;
                }
                let Some(id) = self.take_id() else { return };
                let mut p = Pkt::new(v, if *unsub { UNSUBSCRIBE } else { SUBSCRIBE }).with_id(id);
                p.filters = vec![("t/#".into(), if *unsub { 0 } else { 1 })];
                let evs = self.app_send_with_id(&p);
                for e in &evs {
                    if let Ev::Send { rel: Some(r), .. } = e {
                        let r = self.w.release(*r);
                        self.handle(&r);
                        self.fault("write_failure_connection_continues");
                    }
                }
            }
            Op::Sub | Op::Unsub => {
                let Some(id) = self.take_id() else { return };
                let mut p = Pkt::new(v, if *op == Op::Sub { SUBSCRIBE } else { UNSUBSCRIBE }).with_id(id);
                p.filters = vec![("t/#".into(), if *op == Op::Sub { 1 } else { 0 })];
                self.app_send_with_id(&p);
            }
            Op::Ping => {
                self.app_send(&Pkt::new(v, PINGREQ));
            }
            Op::Disconnect { rc } => {
                let mut p = Pkt::new(v, DISCONNECT);
                if v == 5 && *rc != 0 {
                    p.rc = Some(*rc);
                }
                self.app_send(&p);
            }
            Op::Auth => {
                let mut p = Pkt::new(5, AUTH);
                p.v = v;
                self.app_send(&p);
            }
            Op::PeerAck { nth, how, rc } => {
                if !self.connected() || !self.peer_up() {
                    return;
                }
                let awaiting: Vec<(u32, Stage)> = self.w.m.out.iter().filter(|o| o.stage != Stage::GotPubrec).map(|o| (o.id, o.stage)).collect();
                let kind_of = |s: Stage| match s {
                    Stage::AwaitPuback => PUBACK,
                    Stage::AwaitPubrec => PUBREC,
                    _ => PUBCOMP,
                };
                let p = match how {
                    0 | 1 => {
                        if awaiting.is_empty() {
                            return;
                        }
                        let (id, st) = awaiting[*nth as usize % awaiting.len()];
                        let k = kind_of(st);
                        let k = if *how == 1 {
                            self.fault("wrong_kind_ack");
                            match k {
                                PUBACK => PUBREC,
                                PUBREC => PUBCOMP,
                                _ => PUBACK,
                            }
                        } else {
                            k
                        };
                        let mut p = Pkt::new(v, k).with_id(id);
                        if v == 5 && *rc != 0 && *how == 0 {
                            // PUBCOMP knows only 0x92 besides success
                            p.rc = Some(if k == PUBCOMP { 0x92 } else { *rc });
                            self.fault("error_reason_code_ack");
                        }
                        p
                    }
                    2 => {
                        self.fault("unknown_id_ack");
                        let k = [PUBACK, PUBREC, PUBCOMP][*nth as usize % 3];
                        let mut id = 60000 + *nth as u32;
                        while self.w.m.out.iter().any(|o| o.id == id) {
                            id += 1;
                        }
                        Pkt::new(v, k).with_id(id)
                    }
                    _ => match self.last_ack.clone() {
                        Some(p) => {
                            self.fault("duplicate_ack");
                            p
                        }
                        None => return,
                    },
                };
                if *how == 0 {
                    self.last_ack = Some(p.clone());
                }
                self.peer_send(&p);
            }
            Op::AppPubrel { nth } | Op::AppPubrelBig { nth } | Op::AppPubrelRc { nth } => {
                if self.w.lenient {
                    return;
                }
                let got: Vec<u32> = self.w.m.out.iter().filter(|o| o.stage == Stage::GotPubrec).map(|o| o.id).collect();
                if got.is_empty() {
                    return;
                }
                let id = got[*nth as usize % got.len()];
                let mut p = Pkt::new(v, PUBREL).with_id(id);
                if matches!(op, Op::AppPubrelBig { .. }) && v == 5 {
                    p.rc = Some(0);
                    p.props.push(Prop::ReasonString("released-by-the-application".into()));
                }
                if matches!(op, Op::AppPubrelRc { .. }) && v == 5 {
                    p.rc = Some(0x92);
                }
                self.app_send(&p);
            }
            Op::PeerPub { qos, id, dup, topic, alias, pad } => {
                // a server never sends before its CONNACK; a client may pipeline after CONNECT
                if !self.peer_up() || (self.acting_client && self.w.m.st != St::Connected && !self.cfg.lenient) {
                    return;
                }
                let mut p = Pkt::new(v, PUBLISH);
                p.qos = *qos;
                p.dup = *dup && *qos > 0;
                if *qos > 0 {
                    p.id = Some(*id);
                }
                let t = TOPICS[*topic as usize % TOPICS.len()];
                if v == 5 && alias & 0x80 != 0 {
                    p.props.push(Prop::TopicAlias((alias & 0x7f) as u16));
                } else {
                    p.topic = t.into();
                    if v == 5 && *alias != 0 {
                        p.props.push(Prop::TopicAlias(*alias as u16));
                    }
                }
                p.payload = self.payload(*pad);
                let lim = self.w.m.mps_recv;
                self.pad_to_limit(&mut p, *pad, lim);
                if *qos == 2 && !self.peer_q2.contains(id) {
                    self.peer_q2.push(*id);
                }
                if p.dup {
                    self.fault("duplicate_publish");
                }
                self.peer_send(&p);
            }
            Op::PeerPubrel { id } => {
                if !self.peer_up() || (self.acting_client && self.w.m.st != St::Connected && !self.cfg.lenient) {
                    return;
                }
                self.peer_q2.retain(|x| x != id);
                self.peer_send(&Pkt::new(v, PUBREL).with_id(*id));
            }
            Op::AppAckBig { nth } | Op::AppAckSoft { nth } => {
                if v != 5 || self.w.lenient {
                    return;
                }
                let soft = matches!(op, Op::AppAckSoft { .. });
                let pend: Vec<usize> = (0..self.inbox.len()).filter(|i| matches!(self.inbox[*i].1, InNeed::Puback | InNeed::Pubrec) || (!soft && self.inbox[*i].1 == InNeed::Pubcomp)).collect();
                if pend.is_empty() {
                    return;
                }
                let ix = pend[*nth as usize % pend.len()];
                let (id, need) = self.inbox[ix];
                let mut p = match need {
                    InNeed::Puback => Pkt::new(v, PUBACK),
                    InNeed::Pubrec => Pkt::new(v, PUBREC),
                    _ => Pkt::new(v, PUBCOMP),
                }
                .with_id(id);
                if soft {
                    p.rc = Some(0x10);
                } else {
                    p.rc = Some(0);
                    p.props.push(Prop::ReasonString("acknowledged-by-the-application-with-a-rather-long-explanation".into()));
                }
                let evs = self.app_send(&p);
                if !evs.iter().any(|e| e.is_error()) {
                    self.inbox.remove(ix);
                }
            }
            Op::AppAck { nth, err } => {
                let pend: Vec<usize> = (0..self.inbox.len()).filter(|i| matches!(self.inbox[*i].1, InNeed::Puback | InNeed::Pubrec | InNeed::Pubcomp)).collect();
                if pend.is_empty() {
                    return;
                }
                let ix = pend[*nth as usize % pend.len()];
                let (id, need) = self.inbox[ix];
                let mut p = match need {
                    InNeed::Puback => Pkt::new(v, PUBACK),
                    InNeed::Pubrec => Pkt::new(v, PUBREC),
                    _ => Pkt::new(v, PUBCOMP),
                }
                .with_id(id);
                if *err && v == 5 && need != InNeed::Pubcomp {
                    p.rc = Some(0x80);
                }
                let evs = self.app_send(&p);
                if !evs.iter().any(|e| e.is_error()) {
                    self.inbox.remove(ix);
                    if *err && v == 5 && need == InNeed::Pubrec {
                        self.peer_q2.retain(|x| *x != id);
                    }
                }
            }
            Op::PeerSuback { nth, wrong } => {
                if !self.connected() || !self.peer_up() {
                    return;
                }
                let mut pend: Vec<(u32, u8)> = self.w.m.subs.iter().map(|i| (*i, SUBACK)).collect();
                pend.extend(self.w.m.unsubs.iter().map(|i| (*i, UNSUBACK)));
                let (id, k) = if *wrong {
                    self.fault("unknown_id_ack");
                    let mut id = 61000 + *nth as u32;
                    while self.w.m.subs.contains(&id) || self.w.m.unsubs.contains(&id) {
                        id += 1;
                    }
                    (id, if nth % 2 == 0 { SUBACK } else { UNSUBACK })
                } else {
                    if pend.is_empty() {
                        return;
                    }
                    pend[*nth as usize % pend.len()]
                };
                let mut p = Pkt::new(v, k).with_id(id);
                if k == SUBACK || v == 5 {
                    p.rcs = vec![0];
                }
                self.peer_send(&p);
            }
            Op::PeerSimple { kind } => {
                if !self.peer_up() {
                    return;
                }
                let mut p = Pkt::new(v, *kind);
                if *kind == SUBSCRIBE || *kind == UNSUBSCRIBE {
                    p.id = Some(self.peer_next_id);
                    self.peer_next_id = self.peer_next_id % 100 + 1;
                    p.filters = vec![("a/b".into(), 0)];
                }
                self.peer_send(&p);
            }
            Op::AppAnswer => {
                let pend: Vec<usize> = (0..self.inbox.len()).filter(|i| matches!(self.inbox[*i].1, InNeed::Suback | InNeed::Unsuback | InNeed::Pingresp)).collect();
                if pend.is_empty() {
                    return;
                }
                let ix = pend[0];
                let (id, need) = self.inbox[ix];
                let p = match need {
                    InNeed::Suback => {
                        let mut p = Pkt::new(v, SUBACK).with_id(id);
                        p.rcs = vec![0];
                        p
                    }
                    InNeed::Unsuback => {
                        let mut p = Pkt::new(v, UNSUBACK).with_id(id);
                        if v == 5 {
                            p.rcs = vec![0];
                        }
                        p
                    }
                    _ => Pkt::new(v, PINGRESP),
                };
                self.app_send(&p);
                self.inbox.remove(ix);
            }
            Op::Erase { nth } => {
                let pubs: Vec<u32> = self.w.m.store.iter().filter(|s| !s.rel).map(|s| s.id).collect();
                let id = if pubs.is_empty() { 7 + *nth as u32 } else { pubs[*nth as usize % pubs.len()] };
                let evs = self.w.erase(id);
                self.handle(&evs);
            }
            Op::Acquire => {
                if let Some(i) = self.w.acquire() {
                    self.owned.insert(i);
                }
            }
            Op::Register { id } => {
                if self.w.register(*id) {
                    self.owned.insert(*id);
                }
            }
            Op::Release { nth } => {
                let held = self.held();
                if held.is_empty() {
                    return;
                }
                let id = held[*nth as usize % held.len()];
                let evs = self.w.release(id);
                self.handle(&evs);
                // given up by the application whether or not the library still knew it
                self.owned.remove(&id);
            }
            Op::ReleaseRaw { id } => {
                // never an id that an accepted send owns
                if self.w.m.ids.contains(id) && !self.held().contains(id) {
                    return;
                }
                let evs = self.w.release(*id);
                self.handle(&evs);
            }
            Op::Timer { k } => {
                let Some(d) = self.deadline[k.ix()] else { return };
                if self.now_ms < d {
                    self.now_ms = d;
                }
                self.deadline[k.ix()] = None;
                let evs = self.w.timer(*k);
                self.handle(&evs);
                self.fault("timer_expiry");
            }
            Op::SetPing { ms } => {
                let evs = self.w.set_ping(*ms);
                self.handle(&evs);
            }
            Op::SetPingresp { ms } => {
                self.w.set_pingresp(*ms);
            }
            Op::SetAuto { which, on } => {
                self.w.set_auto(*which, *on);
            }
            Op::Coalesce { qos, id } => {
                self.coalesce = Some((*qos, *id));
            }
            Op::ConnackAgain { ska } => {
                if self.acting_client || self.w.m.st == St::Connecting || self.w.lenient || self.w.want_close {
                    return;
                }
                let mut p = self.cfg.connack_pkt(false, 0);
                if v == 5 {
                    p.props.retain(|x| !matches!(x, Prop::ServerKeepAlive(_) | Prop::SessionExpiry(_)));
                    p.props.push(Prop::ServerKeepAlive(*ska));
                }
                self.app_send(&p);
            }
            Op::SendUnowned { kind } => {
                if self.w.lenient {
                    return;
                }
                let mut id = 1u32;
                while self.w.m.ids.contains(&id) {
                    id += 1;
                }
                let p = match kind {
                    0 | 1 => {
                        let mut p = Pkt::new(v, if *kind == 0 { SUBSCRIBE } else { UNSUBSCRIBE }).with_id(id);
                        p.filters = vec![("t/#".into(), if *kind == 0 { 1 } else { 0 })];
                        p
                    }
                    2 | 3 => {
                        let mut p = Pkt::new(v, PUBLISH).with_id(id);
                        p.qos = kind - 1;
                        p.topic = TOPICS[0].into();
                        p.payload = self.payload(0);
                        p
                    }
                    _ => Pkt::new(v, PUBREL).with_id(id),
                };
                self.app_send(&p);
            }
            Op::Advance { ms } => {
                // idle time never passes an armed deadline without the timer firing first
                let lim = self.deadline.iter().flatten().min().cloned();
                let t = self.now_ms + ms;
                self.now_ms = match lim {
                    Some(l) if t > l => l.max(self.now_ms),
                    _ => t,
                };
            }
            Op::Close { partial } => {
                // reporting a close for a transport that never existed is outside the usage contract
                if self.w.m.st == St::Disc && !self.w.want_close && !self.cfg.lenient {
                    return;
                }
                if *partial > 0 && self.w.m.st != St::Disc && !self.w.want_close {
                    // a frame of the peer is cut off by the loss
                    let mut p = Pkt::new(v, PUBLISH);
                    p.topic = TOPICS[0].into();
                    p.payload = b"partial-frame-cut-off-by-transport-loss".to_vec();
                    // longer frames: the cut can fall inside a 2- or 3-byte Remaining Length
                    match *partial % 3 {
                        1 => p.payload.resize(300, b'x'),
                        2 => p.payload.resize(20000, b'x'),
                        _ => {}
                    }
                    let bytes = wire::encode(&p, self.w.idw);
                    let n = (*partial as usize).min(bytes.len() - 1);
                    self.peer_bytes(&bytes[..n]);
                    self.fault("loss_mid_frame");
                    self.w.stats.hit("loss_mid_frame");
                }
                if self.w.want_close {
                    self.w.stats.hit("close_after_request");
                } else if self.w.m.st != St::Disc {
                    self.fault("transport_loss");
                }
                self.do_close();
            }
            Op::Crash => {
                if self.w.m.st != St::Disc || self.w.want_close {
                    self.do_close();
                }
                self.w.crash_restore(ExportMangle::None);
                self.owned.clear();
                self.inbox.clear();
                self.fault("crash_restart");
            }
            Op::PeerRaw { bytes } => {
                let opens = self.w.m.st == St::Disc && !self.acting_client && !self.w.want_close;
                if !self.peer_up() && !opens {
                    return;
                }
                // adversarial traffic: from here on only the model-free oracles decide
                self.w.set_lenient();
                self.fault("adversarial_frame");
                self.peer_bytes(bytes);
            }
            Op::SetChunk { n } => {
                self.chunk = *n;
            }
            Op::PubFailContinue { qos, topic, reg } => {
                if !self.connected() || self.w.want_close || *qos == 0 {
                    return;
                }
                let id = if *reg != 0 {
                    if !self.w.register(*reg) {
                        return;
                    }
                    self.owned.insert(*reg);
                    *reg
                } else {
                    match self.take_id() {
                        Some(i) => i,
                        None => return,
                    }
                };
                let mut p = Pkt::new(v, PUBLISH);
                p.qos = *qos;
                p.id = Some(id);
                p.topic = TOPICS[*topic as usize % TOPICS.len()].into();
                p.payload = self.payload(0);
                let evs = self.app_send_with_id(&p);
                for e in &evs {
                    if let Ev::Send { rel: Some(r), .. } = e {
                        // the abandoned exchange gives its Receive Maximum slot back: bookkeeping stays exact
                        let r = self.w.release(*r);
                        self.handle(&r);
                        self.fault("write_failure_connection_continues");
                    }
                }
            }
            Op::PeerPubrelRc { id, rc } => {
                if !self.peer_up() || (self.acting_client && self.w.m.st != St::Connected && !self.cfg.lenient) {
                    return;
                }
                self.peer_q2.retain(|x| x != id);
                let mut p = Pkt::new(v, PUBREL).with_id(*id);
                if v == 5 {
                    p.rc = Some(*rc);
                }
                self.peer_send(&p);
            }
            Op::PartialConnectLoss { cut } => {
                // (with offline publishing the object may hold queued packets of no session at all:
                // what a close report means for them is not pinned)
                if self.acting_client || self.w.m.st != St::Disc || self.w.want_close || self.w.lenient || self.cfg.offline {
                    return;
                }
                let p = self.cfg.connect_pkt(false);
                let bytes = wire::encode(&p, self.w.idw);
                let n = (*cut as usize).clamp(1, bytes.len() - 1);
                let lists = self.w.feed(&bytes[..n]);
                for l in lists {
                    self.handle(&l);
                }
                self.fault("loss_mid_frame");
                self.fault("transport_loss");
                if !self.w.failed() {
                    self.do_close();
                }
            }
            Op::PartialThenTimer { cut, k } => {
                if !self.connected() || !self.peer_up() || self.w.lenient || self.deadline[k.ix()].is_none() {
                    return;
                }
                let mut p = Pkt::new(v, PUBLISH);
                p.topic = TOPICS[0].into();
                p.payload = self.payload(8);
                let bytes = wire::encode(&p, self.w.idw);
                let n = (*cut as usize).clamp(1, bytes.len() - 1);
                self.peer_bytes(&bytes[..n]);
                if self.w.failed() {
                    return;
                }
                self.fault("fragmentation");
                self.exec(&Op::Timer { k: *k });
                if !self.w.failed() && self.peer_up() {
                    self.peer_bytes(&bytes[n..]);
                }
            }
            Op::PeerPubAfterClose { qos, id } => {
                if !self.w.want_close {
                    return;
                }
                self.w.set_lenient();
                let keep = self.w.read_past_close;
                self.w.read_past_close = true;
                let mut p = Pkt::new(v, PUBLISH).with_id(*id);
                p.qos = *qos;
                p.topic = TOPICS[0].into();
                p.payload = b"late".to_vec();
                self.fault("frame_after_close_request");
                let bytes = wire::encode(&p, self.w.idw);
                let lists = self.w.feed(&bytes);
                self.w.read_past_close = keep;
                for l in lists {
                    self.handle(&l);
                }
            }
            Op::PeerAfterClose { kind } => {
                if !self.w.want_close || self.w.m.st == St::Disc && self.w.rx_pending() == 0 && false {
                    return;
                }
                self.w.set_lenient();
                let keep = self.w.read_past_close;
                self.w.read_past_close = true;
                let mut p = Pkt::new(v, *kind);
                if *kind == PUBLISH {
                    p.topic = TOPICS[0].into();
                    p.payload = b"late".to_vec();
                }
                self.fault("frame_after_close_request");
                let bytes = wire::encode(&p, self.w.idw);
                let lists = self.w.feed(&bytes);
                self.w.read_past_close = keep;
                for l in lists {
                    self.handle(&l);
                }
            }
            Op::ConnectAgain => {
                if self.w.m.st == St::Disc || !self.acting_client {
                    return;
                }
                let mut p = self.cfg.connect_pkt(false);
                if v == 5 {
                    p.props = vec![Prop::SessionExpiry(7), Prop::ReceiveMax(9), Prop::MaxPacketSize(1000), Prop::TopicAliasMax(9)];
                }
                p.keep_alive = 77;
                self.app_send(&p);
            }
            Op::DisconnectBig => {
                if v != 5 {
                    return;
                }
                let mut p = Pkt::new(5, DISCONNECT);
                p.rc = Some(0);
                p.props.push(Prop::ReasonString("the application says goodbye with a rather long explanation of its reasons".into()));
                self.app_send(&p);
            }
            Op::ExhaustIds => {
                if self.cfg.pid32 || self.w.lenient {
                    return;
                }
                let before = self.w.m.ids.len();
                let mut got = 0u32;
                while self.w.m.ids.len() < 65535 && !self.w.failed() {
                    match self.w.acquire() {
                        Some(i) => {
                            self.owned.insert(i);
                            got += 1;
                        }
                        None => break,
                    }
                }
                if self.w.failed() {
                    return;
                }
                if self.w.m.ids.len() != 65535 {
                    self.w.flag(&["C08"], "not-all-ids-usable", format!("only {} identifiers could be in use simultaneously", self.w.m.ids.len()));
                    return;
                }
                // exhaustion is an error, not a repeated id (checked inside acquire)
                self.w.acquire();
                if self.w.failed() {
                    return;
                }
                if self.w.register(40000) || self.w.failed() {
                    return;
                }
                self.w.stats.hit("c08_all_ids_in_use");
                for id in [40000u32, 1, 65535] {
                    if self.owned.contains(&id) {
                        let evs = self.w.release(id);
                        self.handle(&evs);
                        self.owned.remove(&id);
                        if let Some(i) = self.w.acquire() {
                            if i != id {
                                self.w.flag(&["C08"], "acquire-skips-the-only-free-id", format!("released {id}, acquire returned {i}"));
                                return;
                            }
                            self.owned.insert(i);
                        }
                    }
                }
                let mine: Vec<u32> = self.owned.iter().cloned().collect();
                for id in mine {
                    if self.w.failed() {
                        return;
                    }
                    let evs = self.w.release(id);
                    self.handle(&evs);
                    self.owned.remove(&id);
                }
                let _ = (before, got);
            }
            Op::SwapSide => {
                if self.cfg.role == Role::Any && self.w.m.st == St::Disc && !self.w.want_close {
                    self.acting_client = !self.acting_client;
                    self.w.stats.hit("any_role_swapped_side");
                }
            }
            Op::Regulate { topic, alias } => {
                if v != 5 || self.w.m.ver != 5 {
                    return;
                }
                let mut p = Pkt::new(5, PUBLISH);
                p.qos = 1;
                p.id = Some(1);
                p.payload = b"r".to_vec();
                if alias & 0x80 != 0 {
                    p.props.push(Prop::TopicAlias((alias & 0x7f) as u16));
                } else {
                    p.topic = TOPICS[*topic as usize % TOPICS.len()].into();
                    if *alias != 0 {
                        p.props.push(Prop::TopicAlias(*alias as u16));
                    }
                }
                self.w.regulate(&p);
            }
            Op::SetAlt { on } => {
                if self.w.m.st == St::Disc {
                    self.alt = *on as u8;
                }
            }
            Op::SetTight { on } => {
                if self.w.m.st == St::Disc {
                    self.alt = if *on { 2 } else { 0 };
                }
            }
            Op::Drain => self.drain(),
            Op::Forget => {
                if self.w.m.st != St::Disc || self.w.want_close {
                    self.do_close();
                }
                let mut ids: Vec<u32> = self.owned.iter().cloned().collect();
                ids.extend(self.w.m.out.iter().filter(|o| o.stage == Stage::GotPubrec).map(|o| o.id));
                for id in ids {
                    if self.w.m.ids.contains(&id) {
                        let evs = self.w.release(id);
                        self.handle(&evs);
                    }
                }
                self.owned.clear();
                self.inbox.clear();
            }
        }
    }

    /// Bounded-liveness / quiescence: faults and workload stop; every exchange is completed
    /// within a step bound; afterwards nothing may be left in use.
    pub fn drain(&mut self) {
        use wire::*;
        if self.cfg.lenient || self.w.lenient {
            return;
        }
        self.chunk = 0;
        if self.w.want_close {
            self.do_close();
        }
        let persistent_resume = self.w.m.persistent;
        if self.w.m.st == St::Connecting {
            self.exec(&Op::Connack { sp: persistent_resume, rc: 0 });
        }
        if self.w.m.st == St::Disc {
            if self.w.m.ver == 0 && self.cfg.ver != Ver::Undet {
                return;
            }
            self.exec(&Op::Connect { clean: false });
            let sp = self.w.m.persistent;
            self.exec(&Op::Connack { sp, rc: 0 });
        }
        if self.w.failed() || !self.connected() {
            return;
        }
        let budget = 64 + 8 * (self.w.m.out.len() + self.inbox.len() + self.w.m.subs.len() + self.w.m.unsubs.len());
        let mut steps = 0;
        loop {
            if self.w.failed() || !self.connected() || self.w.want_close {
                break;
            }
            steps += 1;
            if steps > budget {
                self.w.flag(&["C01", "C06"], "drain-bound-exceeded", format!("not quiescent after {budget} steps"));
                return;
            }
            if let Some(o) = self.w.m.out.first().cloned() {
                if o.stage == Stage::GotPubrec {
                    self.exec(&Op::AppPubrel { nth: 0 });
                } else {
                    self.exec(&Op::PeerAck { nth: 0, how: 0, rc: 0 });
                }
                continue;
            }
            if !self.w.m.subs.is_empty() || !self.w.m.unsubs.is_empty() {
                self.exec(&Op::PeerSuback { nth: 0, wrong: false });
                continue;
            }
            if self.inbox.iter().any(|x| matches!(x.1, InNeed::Puback | InNeed::Pubrec | InNeed::Pubcomp)) {
                self.exec(&Op::AppAck { nth: 0, err: false });
                continue;
            }
            if !self.inbox.is_empty() {
                self.exec(&Op::AppAnswer);
                continue;
            }
            if let Some(id) = self.peer_q2.first().cloned() {
                self.exec(&Op::PeerPubrel { id });
                continue;
            }
            break;
        }
        if self.w.failed() || !self.connected() {
            return;
        }
        while !self.held().is_empty() {
            self.exec(&Op::Release { nth: 0 });
            if self.w.failed() {
                return;
            }
        }
        // quiescence
        self.w.stats.hit("quiescence_reached");
        let m = &self.w.m;
        if !m.ids.is_empty() {
            let ids = m.ids.clone();
            self.w.flag(&["C08", "C01"], "ids-in-use-at-quiescence", format!("{:?}", ids));
            return;
        }
        let st = self.w.ep.stored();
        if !st.is_empty() {
            self.w.flag(&["C06", "C01"], "store-not-empty-at-quiescence", format!("{:?}", st.iter().map(|p| p.short()).collect::<Vec<_>>()));
            return;
        }
        let h = self.w.ep.handled();
        if !h.is_empty() {
            self.w.flag(&["C07", "C01"], "handled-not-empty-at-quiescence", format!("{:?}", h));
            return;
        }
        if self.w.m.ver == 5 {
            if let Some(mx) = self.w.m.rm_send {
                let vac = self.w.ep.vacancy();
                if vac != Some(mx) {
                    self.w.flag(&["C12", "C01"], "vacancy-not-restored-at-quiescence", format!("vacancy {:?}, Receive Maximum {mx}", vac));
                    return;
                }
            }
        }
        // public-API cross-check of the in-use set: every small id can be registered and released again
        for id in 1..=8u32 {
            if !self.w.register(id) {
                return;
            }
            self.w.release(id);
            if self.w.failed() {
                return;
            }
        }
    }
}

// ------------------------------------------------------------------ generation

pub struct GenProfile {
    /// relative weights per op family
    pub w_pub: u32,
    pub w_sub: u32,
    pub w_ping: u32,
    pub w_peerack: u32,
    pub w_peerpub: u32,
    pub w_appack: u32,
    pub w_ids: u32,
    pub w_timer: u32,
    pub w_close: u32,
    pub w_crash: u32,
    pub w_disc: u32,
    pub w_erase: u32,
    pub w_misc: u32,
}

impl Default for GenProfile {
    fn default() -> Self {
        GenProfile { w_pub: 30, w_sub: 6, w_ping: 3, w_peerack: 30, w_peerpub: 14, w_appack: 14, w_ids: 6, w_timer: 4, w_close: 4, w_crash: 1, w_disc: 1, w_erase: 3, w_misc: 4 }
    }
}

/// Draw the next op from the PRNG given a (read-only) view of the world.
pub fn gen_op(s: &Solo, r: &mut Rng, prof: &GenProfile) -> Op {
    use wire::*;
    let cfg = &s.cfg;
    let m = &s.w.m;
    if s.w.want_close {
        if r.chance(1, 8) {
            if r.chance(1, 3) {
                return Op::PeerPubAfterClose { qos: *r.pick(&[1u8, 2, 2]), id: r.range(1, 4) as u32 };
            }
            return Op::PeerAfterClose { kind: *r.pick(&[PUBLISH, PINGREQ, PINGRESP, PUBACK]) };
        }
        if r.chance(4, 5) {
            return Op::Close { partial: 0 };
        }
    }
    match m.st {
        St::Disc => {
            let x = r.below(100);
            if x < 70 {
                // resume or clean
                let clean = if m.conn_no == 0 { r.chance(1, 2) } else { r.chance(1, 5) };
                return Op::Connect { clean };
            }
            if x < 80 && cfg.f_crash {
                return Op::Crash;
            }
            if x < 90 {
                // offline / refused sends
                return Op::Pub { qos: r.below(3) as u8, topic: r.below(3) as u8, alias: 0, pad: 0, fail: false };
            }
            if x < 92 && !s.acting_client && cfg.f_loss {
                return Op::PartialConnectLoss { cut: r.range(1, 12) as u8 };
            }
            if x < 94 {
                return Op::AppPubrel { nth: r.below(4) as u8 };
            }
            if x < 96 {
                return if r.chance(1, 2) { Op::Sub } else { Op::Acquire };
            }
            if x < 97 && m.conn_no > 0 && cfg.role == Role::Any && cfg.ver != Ver::Undet {
                return Op::SwapSide;
            }
            // (also before the first connection: later ones may then announce what it did not)
            if x < 98 {
                return match r.below(3) {
                    0 => Op::SetAlt { on: s.alt != 1 },
                    1 => Op::SetTight { on: s.alt != 2 },
                    _ => Op::SetAlt { on: false },
                };
            }
            return Op::Erase { nth: r.below(4) as u8 };
        }
        St::Connecting => {
            let x = r.below(100);
            if x < 80 {
                let sp = if cfg.known_triggers { r.chance(1, 2) } else { m.persistent && r.chance(9, 10) };
                let rc = if r.chance(1, 20) { if cfg.wire_v == 5 { 0x87 } else { 5 } } else { 0 };
                return Op::Connack { sp, rc };
            }
            if x < 90 {
                // queued before CONNACK; sometimes with a topic alias (binds it without sending it)
                let alias = if cfg.wire_v == 5 && r.chance(1, 3) { 1 } else { 0 };
                return Op::Pub { qos: r.range(1, 2) as u8, topic: r.below(3) as u8, alias, pad: 0, fail: false };
            }
            if x < 95 && cfg.f_loss {
                return Op::Close { partial: 0 };
            }
            // the ping interval may be changed between CONNECT and CONNACK as well
            if r.chance(1, 4) {
                return Op::SetPing { ms: *r.pick(&[None, Some(0), Some(3000)]) };
            }
            // a timer armed by the CONNECT may expire before the CONNACK arrives
            let armed: Vec<Tk> = Tk::ALL.iter().cloned().filter(|k| s.deadline[k.ix()].is_some()).collect();
            if !armed.is_empty() && r.chance(1, 2) {
                return Op::Timer { k: *r.pick(&armed) };
            }
            return Op::Acquire;
        }
        St::Connected => {}
    }
    // a pending coalesced buffer is most interesting when its first frame ends the connection
    if s.coalesce.is_some() && cfg.f_wrongack && r.chance(1, 2) {
        return Op::PeerAck { nth: r.below(8) as u8, how: 2, rc: 0 };
    }
    let awaiting = m.out.iter().filter(|o| o.stage != Stage::GotPubrec).count() as u32;
    let got = m.out.iter().filter(|o| o.stage == Stage::GotPubrec).count() as u32;
    let inb = s.inbox.len() as u32;
    let w = [
        prof.w_pub,
        prof.w_sub,
        prof.w_ping,
        if awaiting > 0 { prof.w_peerack + 6 * awaiting } else if cfg.f_wrongack { 2 } else { 0 },
        prof.w_peerpub,
        if inb > 0 { prof.w_appack + 4 * inb } else { 0 },
        prof.w_ids,
        if s.deadline.iter().any(|d| d.is_some()) { prof.w_timer } else { 0 },
        if cfg.f_loss { prof.w_close } else { 0 },
        if cfg.f_crash { prof.w_crash } else { 0 },
        prof.w_disc,
        if !m.store.is_empty() { prof.w_erase } else { 0 },
        prof.w_misc,
        if got > 0 { 20 } else { 0 },
        if !m.subs.is_empty() || !m.unsubs.is_empty() { 12 } else { 0 },
        if !s.peer_q2.is_empty() { 10 } else { 0 },
    ];
    let v5 = cfg.wire_v == 5;
    match r.weighted(&w) {
        0 => {
            let qos = *r.pick(&[0u8, 1, 1, 2, 2]);
            let topic = r.below(3) as u8;
            let mut alias = 0u8;
            if v5 && m.tam_send > 0 && r.chance(1, 2) {
                let extra = if r.chance(1, 10) { 1 } else { 0 };
                let a = r.range(1, m.tam_send.min(3) as u64 + extra) as u8;
                alias = if r.chance(1, 3) { 0x80 | a } else { a };
            } else if v5 && r.chance(1, 25) {
                alias = if r.chance(1, 2) { 0x81 } else { 1 };
            }
            let pad = if m.mps_send.is_some() && r.chance(1, 4) { *r.pick(&[PAD_AT_LIMIT_MINUS_4, PAD_AT_LIMIT_MINUS_3, PAD_AT_LIMIT_MINUS_1, PAD_AT_LIMIT, PAD_AT_LIMIT, PAD_AT_LIMIT_PLUS_1]) } else if r.chance(1, 4) { r.below(24) as u16 } else { 0 };
            let fail = cfg.f_writefail && r.chance(1, 30);
            if cfg.f_writefail && qos > 0 && r.chance(1, 40) {
                return Op::PubFailContinue { qos, topic, reg: *r.pick(&[0u32, 0, 65535, 65534]) };
            }
            if v5 && r.chance(1, 16) {
                return Op::Pub { qos, topic, alias, pad: PAD_PROPS_MIN + r.below(10) as u16, fail: false };
            }
            Op::Pub { qos, topic, alias, pad, fail }
        }
        1 => {
            if s.acting_client {
                if cfg.f_writefail && r.chance(1, 10) {
                    Op::SubFailContinue { unsub: r.chance(1, 2) }
                } else if r.chance(1, 2) {
                    Op::Sub
                } else {
                    Op::Unsub
                }
            } else {
                Op::PeerSimple { kind: if r.chance(1, 2) { SUBSCRIBE } else { UNSUBSCRIBE } }
            }
        }
        2 => {
            if s.acting_client {
                if r.chance(1, 2) { Op::Ping } else { Op::PeerSimple { kind: PINGRESP } }
            } else {
                Op::PeerSimple { kind: PINGREQ }
            }
        }
        3 => {
            let how = if cfg.f_wrongack && r.chance(1, 8) { r.range(1, 3) as u8 } else { 0 };
            let rc = if v5 && r.chance(1, 8) { *r.pick(&[0x80u8, 0x10, 0x97]) } else { 0 };
            Op::PeerAck { nth: r.below(8) as u8, how, rc }
        }
        4 => {
            let qos = *r.pick(&[0u8, 1, 2, 2]);
            let id = if r.chance(1, 12) { *r.pick(&[65535u32, 1]) } else { r.range(1, 3) as u32 };
            let dup = cfg.f_dup && r.chance(1, 3);
            let mut alias = 0u8;
            if v5 && m.tam_recv > 0 && r.chance(1, 2) {
                let a = r.range(1, m.tam_recv.min(3) as u64) as u8;
                alias = if r.chance(1, 3) { 0x80 | a } else { a };
            } else if v5 && r.chance(1, 30) {
                alias = 1;
            }
            let pad = if m.mps_recv.is_some() && r.chance(1, 4) { *r.pick(&[PAD_AT_LIMIT_MINUS_1, PAD_AT_LIMIT, PAD_AT_LIMIT, PAD_AT_LIMIT_PLUS_1]) } else if r.chance(1, 5) { r.below(24) as u16 } else { 0 };
            Op::PeerPub { qos, id, dup, topic: r.below(3) as u8, alias, pad }
        }
        5 => {
            if v5 && r.chance(1, 8) {
                if r.chance(1, 2) { Op::AppAckBig { nth: r.below(8) as u8 } } else { Op::AppAckSoft { nth: r.below(8) as u8 } }
            } else {
                Op::AppAck { nth: r.below(8) as u8, err: r.chance(1, 8) }
            }
        }
        6 => match r.below(6) {
            0 | 1 => Op::Acquire,
            2 => Op::Register { id: *r.pick(&[0u32, 1, 2, 5, 65535, 65534, 70000, u32::MAX]) },
            3 => Op::Release { nth: r.below(4) as u8 },
            4 => {
                if r.chance(1, 3) { Op::SendUnowned { kind: r.below(5) as u8 } } else { Op::Release { nth: r.below(4) as u8 } }
            }
            _ => Op::ReleaseRaw { id: *r.pick(&[0u32, 9, 65535, 4000]) },
        },
        7 => {
            let armed: Vec<Tk> = Tk::ALL.iter().cloned().filter(|k| s.deadline[k.ix()].is_some()).collect();
            if r.chance(1, 6) {
                Op::PartialThenTimer { cut: r.range(1, 10) as u8, k: *r.pick(&armed) }
            } else {
                Op::Timer { k: *r.pick(&armed) }
            }
        }
        8 => Op::Close { partial: if r.chance(1, 3) { r.range(1, 20) as u16 } else { 0 } },
        9 => Op::Crash,
        10 => match r.below(6) {
            0 => Op::DisconnectBig,
            1 => Op::ConnectAgain,
            2 if s.acting_client => Op::Connack { sp: r.chance(1, 2), rc: *r.pick(&[0u8, 0x87]) },
            // the peer says goodbye (and may, against the rules, go on talking on the same transport)
            3 => Op::PeerSimple { kind: DISCONNECT },
            // a second CONNECT of the peer on the established connection
            4 if !s.acting_client => {
                if r.chance(1, 2) { Op::Connect { clean: r.chance(1, 2) } } else { Op::ConnackAgain { ska: *r.pick(&[0u16, 1, 7]) } }
            }
            _ => Op::Disconnect { rc: if r.chance(1, 2) { 0 } else { 0x04 } },
        },
        11 => Op::Erase { nth: r.below(4) as u8 },
        12 => match r.below(6) {
            0 => {
                if r.chance(1, 3) {
                    Op::SetPingresp { ms: *r.pick(&[0u64, 0, 2000, 5000]) }
                } else if r.chance(1, 3) {
                    Op::SetAuto { which: r.below(5) as u8, on: r.chance(1, 2) }
                } else if r.chance(1, 2) {
                    Op::Coalesce { qos: *r.pick(&[0u8, 1, 1, 2, 3]), id: r.range(1, 4) as u32 }
                } else {
                    Op::SetPing { ms: *r.pick(&[None, Some(0), Some(3000), Some(7000)]) }
                }
            }
            1 => Op::Advance { ms: r.range(1, 5000) },
            2 => Op::SetChunk { n: if cfg.f_chunk { *r.pick(&[0u16, 1, 2, 3, 7]) } else { 0 } },
            3 => Op::AppAnswer,
            4 if v5 => match r.below(3) {
                0 => Op::Auth,
                1 => Op::PeerSimple { kind: AUTH },
                _ => Op::Regulate { topic: r.below(3) as u8, alias: *r.pick(&[0u8, 1, 2, 0x81, 0x82, 0x83]) },
            },
            _ => Op::AppAnswer,
        },
        13 => {
            if v5 && r.chance(1, 4) {
                Op::AppPubrelBig { nth: r.below(4) as u8 }
            } else if v5 && r.chance(1, 4) {
                Op::AppPubrelRc { nth: r.below(4) as u8 }
            } else {
                Op::AppPubrel { nth: r.below(4) as u8 }
            }
        }
        14 => Op::PeerSuback { nth: r.below(4) as u8, wrong: cfg.f_wrongack && r.chance(1, 10) },
        _ => {
            let id = *r.pick(&s.peer_q2);
            if v5 && r.chance(1, 5) { Op::PeerPubrelRc { id, rc: *r.pick(&[0u8, 0x92]) } } else { Op::PeerPubrel { id } }
        }
    }
}

/// Draw a swarm configuration for the protocol-model driven solo runs.
pub fn gen_cfg(r: &mut Rng, faults: bool) -> Cfg {
    let v5 = r.chance(3, 5);
    let as_client = r.chance(1, 2);
    let role = if r.chance(1, 6) { Role::Any } else if as_client { Role::Client } else { Role::Server };
    let ver = if v5 { Ver::V5 } else { Ver::V4 };
    let mut c = Cfg::basic(role, ver, as_client);
    if !as_client && role != Role::Client && r.chance(1, 6) {
        c.ver = Ver::Undet;
    }
    c.pid32 = r.chance(1, 5);
    c.auto_pub = r.chance(1, 2);
    c.auto_ping = r.chance(1, 2);
    c.offline = r.chance(1, 6);
    c.vectored = r.chance(1, 8);
    c.ka = *r.pick(&[0u16, 0, 10, 60, 1, 21846, 65535]);
    c.pingresp_to_ms = *r.pick(&[0u64, 0, 5000]);
    if v5 {
        c.auto_map = r.chance(1, 4);
        c.auto_replace = !c.auto_map && r.chance(1, 4);
        c.sei = *r.pick(&[None, Some(0), Some(100), Some(u32::MAX)]);
        let rm = [None, Some(1u16), Some(2), Some(3), Some(65535)];
        let tam = [None, Some(1u16), Some(2), Some(5)];
        let mps = [None, None, Some(40u32), Some(64), Some(200)];
        c.c_rm = *r.pick(&rm);
        c.s_rm = *r.pick(&rm);
        c.c_tam = *r.pick(&tam);
        c.s_tam = *r.pick(&tam);
        c.c_mps = *r.pick(&mps);
        c.s_mps = *r.pick(&mps);
        c.s_ska = *r.pick(&[None, None, Some(0u16), Some(5)]);
        // the server may override the session expiry in CONNACK (client side of E only)
        c.s_sei = if as_client { *r.pick(&[None, None, None, Some(0u32), Some(50)]) } else { None };
    }
    if faults {
        c.f_loss = r.chance(3, 4);
        c.f_crash = r.chance(1, 3);
        c.f_wrongack = r.chance(1, 2);
        c.f_dup = r.chance(1, 2);
        c.f_writefail = r.chance(1, 3);
        c.f_chunk = r.chance(1, 2);
    }
    c
}

// ------------------------------------------------------------------ adversarial peer

/// A frame from an adversarial peer: a packet of any kind with boundary / forbidden field
/// values written by the raw encoder, optionally mutated at byte level, or plain garbage.
pub fn gen_adversarial(s: &Solo, r: &mut Rng) -> Vec<u8> {
    use wire::*;
    let v = s.cfg.wire_v;
    let idw = s.w.idw;
    let maxid = if idw == 2 { 65535u32 } else { u32::MAX };
    if r.chance(1, 12) {
        // raw garbage
        let n = r.range(1, 24) as usize;
        return (0..n).map(|_| *r.pick(&[0u8, 0x80, 0xff, 0x10, 0x20, 0x30, 0x32, 0x34, 0x40, 0x62, 0x7f, 0x81, 0xe0, 0xf0, 1, 2, 4])).collect();
    }
    if r.chance(1, 12) {
        // a long frame of a kind this endpoint may never receive (it arrives in pieces when the
        // transport fragments): nothing of its body may be taken for anything else
        let kind: u8 = if s.acting_client { *r.pick(&[SUBSCRIBE, UNSUBSCRIBE, PINGREQ]) } else { *r.pick(&[SUBACK, UNSUBACK, PINGRESP]) };
        let n: usize = 1500;
        let mut b = vec![kind << 4 | if kind == SUBSCRIBE || kind == UNSUBSCRIBE { 2 } else { 0 }, (n & 0x7f) as u8 | 0x80, (n >> 7) as u8];
        // a body that reads as well-formed frames when parsed from its start
        let mut q = Pkt::new(v, PUBLISH);
        q.topic = TOPICS[0].into();
        q.payload = b"embedded".to_vec();
        let inner = wire::encode(&q, idw);
        while b.len() + inner.len() <= n + 3 {
            b.extend_from_slice(&inner);
        }
        b.resize(n + 3, 0xc0);
        return b;
    }
    let inflight: Vec<u32> = s.w.m.ids.iter().cloned().take(3).collect();
    let mut ids = vec![0u32, 1, 2, maxid];
    ids.extend(inflight);
    let kind = if r.chance(1, 20) { 0 } else { r.range(1, 15) as u8 };
    let mut p = Pkt::new(v, kind);
    match kind {
        CONNECT => {
            p.client_id = r.pick(&["", "cid", "x"]).to_string();
            p.clean = r.chance(1, 2);
            p.keep_alive = *r.pick(&[0u16, 1, 65535]);
            p.level = *r.pick(&[0u8, 0, 0, 3, 4, 5, 6, 0x84, 0x85]);
            if v == 5 {
                for _ in 0..r.below(4) {
                    p.props.push(match r.below(6) {
                        0 => Prop::TopicAliasMax(*r.pick(&[0u16, 1, 65535])),
                        1 => Prop::ReceiveMax(*r.pick(&[0u16, 1, 65535])),
                        2 => Prop::MaxPacketSize(*r.pick(&[0u32, 1, 5, 20, u32::MAX])),
                        3 => Prop::SessionExpiry(*r.pick(&[0u32, 1, u32::MAX])),
                        4 => Prop::User("k".into(), "v".into()),
                        _ => Prop::ServerKeepAlive(3),
                    });
                }
            }
        }
        CONNACK => {
            p.sp = r.chance(1, 2);
            p.rc = Some(*r.pick(&[0u8, 0, 1, 5, 0x80, 0x87, 0xff]));
            if v == 5 {
                for _ in 0..r.below(4) {
                    p.props.push(match r.below(6) {
                        0 => Prop::TopicAliasMax(*r.pick(&[0u16, 1, 65535])),
                        1 => Prop::ReceiveMax(*r.pick(&[0u16, 1, 65535])),
                        2 => Prop::MaxPacketSize(*r.pick(&[0u32, 1, 5, 20, u32::MAX])),
                        3 => Prop::SessionExpiry(*r.pick(&[0u32, 1, u32::MAX])),
                        4 => Prop::ServerKeepAlive(*r.pick(&[0u16, 1, 65535])),
                        _ => Prop::TopicAlias(1),
                    });
                }
            }
        }
        PUBLISH => {
            p.qos = *r.pick(&[0u8, 1, 2, 2, 3]);
            p.dup = r.chance(1, 3);
            p.retain = r.chance(1, 4);
            p.id = Some(*r.pick(&ids));
            p.topic = r.pick(&["", "t0", "a/#", "+", "t/1"]).to_string();
            p.payload = b"adv".to_vec();
            if v == 5 && r.chance(1, 2) {
                p.props.push(Prop::TopicAlias(*r.pick(&[0u16, 1, 2, 65535])));
                if r.chance(1, 6) {
                    p.props.push(Prop::TopicAlias(1));
                }
            }
            if v == 5 && r.chance(1, 8) {
                p.props.push(Prop::ReceiveMax(1));
            }
        }
        PUBACK | PUBREC | PUBREL | PUBCOMP => {
            p.id = Some(*r.pick(&ids));
            if v == 5 && r.chance(1, 2) {
                p.rc = Some(*r.pick(&[0u8, 0x10, 0x80, 0x92, 0x97, 0xff]));
                if r.chance(1, 4) {
                    p.props.push(Prop::ReasonString("r".into()));
                }
            }
            if r.chance(1, 10) {
                p.flags = Some(*r.pick(&[0u8, 2, 0xf]));
            }
        }
        SUBSCRIBE | UNSUBSCRIBE => {
            p.id = Some(*r.pick(&ids));
            p.filters = match r.below(4) {
                0 => vec![],
                1 => vec![("a".into(), 0)],
                2 => vec![("a/#".into(), *r.pick(&[1u8, 2, 3, 0xff])), ("".into(), 0)],
                _ => vec![("$share//x".into(), 0)],
            };
            if r.chance(1, 10) {
                p.flags = Some(0);
            }
        }
        SUBACK | UNSUBACK => {
            let mut cand = ids.clone();
            cand.extend(s.w.m.subs.iter().cloned());
            cand.extend(s.w.m.unsubs.iter().cloned());
            p.id = Some(*r.pick(&cand));
            p.rcs = match r.below(4) {
                0 => vec![],
                1 => vec![0],
                2 => vec![0x80, 0],
                _ => vec![0xff],
            };
        }
        PINGREQ | PINGRESP => {
            if r.chance(1, 3) {
                p.flags = Some(*r.pick(&[1u8, 0xf]));
            }
            if r.chance(1, 4) {
                p.kind = kind;
                let mut b = encode(&p, idw);
                b[1] = 1;
                b.push(0);
                return b;
            }
        }
        DISCONNECT => {
            if v == 5 && r.chance(1, 2) {
                p.rc = Some(*r.pick(&[0u8, 4, 0x81, 0x8d, 0xff]));
            }
        }
        AUTH => {
            if r.chance(1, 2) {
                p.rc = Some(*r.pick(&[0u8, 0x18, 0x19, 0xff]));
            }
        }
        _ => {
            p.payload = vec![0, 1, 2];
        }
    }
    let mut b = encode(&p, idw);
    // byte-level mutation
    if r.chance(1, 2) && !b.is_empty() {
        match r.below(6) {
            0 => {
                let i = r.below(b.len() as u64) as usize;
                b[i] ^= 1 << r.below(8);
            }
            1 => {
                // truncate the body and fix the remaining length (1-byte RL only)
                if b.len() > 2 && b[1] < 128 {
                    let cut = r.range(1, (b.len() - 2).min(6) as u64) as usize;
                    b.truncate(b.len() - cut);
                    b[1] = (b.len() - 2) as u8;
                }
            }
            2 => {
                let i = r.range(2.min(b.len() as u64), b.len() as u64) as usize;
                b.insert(i.min(b.len()), *r.pick(&[0u8, 0x80, 0xff]));
                if b[1] < 127 {
                    b[1] += 1;
                }
            }
            3 => {
                // non-minimal remaining length
                if b.len() >= 2 && b[1] < 128 {
                    let l = b[1];
                    b[1] = l | 0x80;
                    b.insert(2, 0);
                }
            }
            4 => {
                // over-long remaining length: 5 length bytes
                let rest = b.split_off(1);
                b.extend_from_slice(&[0x80, 0x80, 0x80, 0x80, 0x01]);
                b.extend_from_slice(&rest);
            }
            _ => {
                // remaining length larger than what follows: the rest of the stream is eaten
                if b[1] < 100 {
                    b[1] += r.range(1, 20) as u8;
                }
            }
        }
    }
    b
}
