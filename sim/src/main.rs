#![allow(dead_code, unused_imports)]
mod alloc;
mod ep;
mod matrix;
mod model;
mod pair;
mod rng;
mod runner;
mod scen;
mod solo;
mod twin;
mod wire;

fn main() {
    model::install_panic_hook();
    let code = runner::cli(std::env::args().skip(1).collect());
    std::process::exit(code);
}
