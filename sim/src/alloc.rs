//! C20: the value allocator against a plain set of integers (reference-model refinement
//! over operation histories), plus the representation invariant through the hook.

use crate::model::Violation;
use crate::rng::Rng;
use mqtt_protocol_core::mqtt::ValueAllocator;
use serde::{Deserialize, Serialize};
use std::collections::BTreeSet;
use std::panic::{catch_unwind, AssertUnwindSafe};

#[derive(Clone, Debug, Serialize, Deserialize, PartialEq, Eq, Hash)]
pub enum AOp {
    Allocate,
    Use(u64),
    /// release the nth used value (contract: only used values are released)
    DeallocNth(u32),
    Dealloc(u64),
    Clear,
    IsUsed(u64),
    FirstVacant,
    Count,
}

#[derive(Clone, Debug, Serialize, Deserialize, PartialEq)]
pub struct ACase {
    pub wide: bool,
    pub lo: u64,
    pub hi: u64,
    pub ops: Vec<AOp>,
}

enum A {
    N(ValueAllocator<u16>),
    W(ValueAllocator<u32>),
}
impl A {
    fn allocate(&mut self) -> Option<u64> {
        match self {
            A::N(a) => a.allocate().map(|x| x as u64),
            A::W(a) => a.allocate().map(|x| x as u64),
        }
    }
    fn use_value(&mut self, v: u64) -> bool {
        match self {
            A::N(a) => a.use_value(v as u16),
            A::W(a) => a.use_value(v as u32),
        }
    }
    fn deallocate(&mut self, v: u64) {
        match self {
            A::N(a) => a.deallocate(v as u16),
            A::W(a) => a.deallocate(v as u32),
        }
    }
    fn clear(&mut self) {
        match self {
            A::N(a) => a.clear(),
            A::W(a) => a.clear(),
        }
    }
    fn is_used(&self, v: u64) -> bool {
        match self {
            A::N(a) => a.is_used(v as u16),
            A::W(a) => a.is_used(v as u32),
        }
    }
    fn first_vacant(&self) -> Option<u64> {
        match self {
            A::N(a) => a.first_vacant().map(|x| x as u64),
            A::W(a) => a.first_vacant().map(|x| x as u64),
        }
    }
    fn count(&self) -> usize {
        match self {
            A::N(a) => a.interval_count(),
            A::W(a) => a.interval_count(),
        }
    }
    fn intervals(&self) -> Vec<(u64, u64)> {
        match self {
            A::N(a) => a.verif_intervals().into_iter().map(|(l, h)| (l as u64, h as u64)).collect(),
            A::W(a) => a.verif_intervals().into_iter().map(|(l, h)| (l as u64, h as u64)).collect(),
        }
    }
}

/// free intervals of [lo,hi] minus `used`, maximally merged
fn complement(lo: u64, hi: u64, used: &BTreeSet<u64>) -> Vec<(u64, u64)> {
    let mut out = vec![];
    let mut next = lo;
    for u in used {
        if *u > next {
            out.push((next, u - 1));
        }
        next = u + 1;
    }
    if next <= hi {
        out.push((next, hi));
    }
    out
}

pub struct AOutcome {
    pub viol: Option<Violation>,
    pub steps: u64,
    pub max_intervals: usize,
    pub filled: bool,
}

pub fn run(c: &ACase) -> AOutcome {
    let mut steps = 0u64;
    let mut max_intervals = 0usize;
    let mut filled = false;
    let r = catch_unwind(AssertUnwindSafe(|| -> Option<Violation> {
        let mut a = if c.wide { A::W(ValueAllocator::new(c.lo as u32, c.hi as u32)) } else { A::N(ValueAllocator::new(c.lo as u16, c.hi as u16)) };
        let mut used: BTreeSet<u64> = BTreeSet::new();
        let tmax = if c.wide { u32::MAX as u64 } else { u16::MAX as u64 };
        let v = |class: &str, msg: String, step: usize| Some(Violation { props: vec!["C20"], class: class.to_string(), msg, step });
        for (i, op) in c.ops.iter().enumerate() {
            steps += 1;
            let free = complement(c.lo, c.hi, &used);
            let smallest = free.first().map(|x| x.0);
            match op {
                AOp::Allocate => {
                    let got = a.allocate();
                    if got != smallest {
                        return v("allocate-not-smallest-free", format!("allocate() = {:?}, smallest free value is {:?} (used {:?})", got, smallest, used), i);
                    }
                    if let Some(x) = got {
                        used.insert(x);
                    }
                }
                AOp::Use(x) => {
                    if *x > tmax {
                        continue;
                    }
                    let should = *x >= c.lo && *x <= c.hi && !used.contains(x);
                    let got = a.use_value(*x);
                    if got != should {
                        return v("use-value-result", format!("use_value({x}) = {got}, expected {should}"), i);
                    }
                    if got {
                        used.insert(*x);
                    }
                }
                AOp::DeallocNth(n) => {
                    if used.is_empty() {
                        continue;
                    }
                    let x = *used.iter().nth(*n as usize % used.len()).unwrap();
                    a.deallocate(x);
                    used.remove(&x);
                }
                AOp::Dealloc(x) => {
                    if !used.contains(x) {
                        continue;
                    }
                    a.deallocate(*x);
                    used.remove(x);
                }
                AOp::Clear => {
                    a.clear();
                    used.clear();
                }
                AOp::IsUsed(x) => {
                    if *x > tmax {
                        continue;
                    }
                    let should = used.contains(x);
                    let got = a.is_used(*x);
                    if got != should {
                        let class = if *x < c.lo || *x > c.hi { "out-of-range-value-reported-used" } else { "is-used-result" };
                        return v(class, format!("is_used({x}) = {got}, expected {should} (range {}..={})", c.lo, c.hi), i);
                    }
                }
                AOp::FirstVacant => {
                    let got = a.first_vacant();
                    if got != smallest {
                        return v("first-vacant", format!("first_vacant() = {:?}, expected {:?}", got, smallest), i);
                    }
                }
                AOp::Count => {}
            }
            // representation: sorted, disjoint, maximally merged, in range, denotes the free set
            let iv = a.intervals();
            let expect = complement(c.lo, c.hi, &used);
            max_intervals = max_intervals.max(iv.len());
            if expect.is_empty() {
                filled = true;
            }
            if iv != expect {
                return v("representation", format!("after {:?}: intervals {:?}, the free set is {:?}", op, iv, expect), i);
            }
            if a.count() != expect.len() {
                return v("interval-count", format!("interval_count() = {}, expected {}", a.count(), expect.len()), i);
            }
        }
        None
    }));
    match r {
        Ok(v) => AOutcome { viol: v, steps, max_intervals, filled },
        Err(_) => {
            let m = crate::model::LAST_PANIC.with(|p| p.borrow().clone());
            let loc = m.rsplit(" @ ").next().unwrap_or("").to_string();
            AOutcome { viol: Some(Violation { props: vec!["C20"], class: format!("panic/{loc}"), msg: format!("panicked: {m}"), step: steps as usize }), steps, max_intervals, filled }
        }
    }
}

const RANGES_N: [(u64, u64); 8] = [(0, 0), (1, 1), (0, 1), (1, 3), (0, 3), (65535, 65535), (65533, 65535), (1, 65535)];
const RANGES_W: [(u64, u64); 5] = [(0, 2), (4294967295, 4294967295), (4294967293, 4294967295), (1, 4294967295), (0, 4294967295)];

/// number of enumerated (exhaustive) cases: all op sequences of length ENUM_LEN over the
/// small alphabet, for every small range
pub const ENUM_LEN: u32 = 5;
const SMALL: [(u64, u64); 5] = [(0, 0), (0, 1), (1, 3), (0, 3), (65533, 65535)];

fn small_alphabet(lo: u64, hi: u64) -> Vec<AOp> {
    let mut a = vec![AOp::Allocate, AOp::Clear, AOp::FirstVacant];
    let from = lo.saturating_sub(1);
    let to = (hi + 1).min(65535);
    for x in from..=to {
        a.push(AOp::Use(x));
        a.push(AOp::Dealloc(x));
        a.push(AOp::IsUsed(x));
    }
    a
}

pub fn enum_total() -> u64 {
    SMALL.iter().map(|(lo, hi)| (small_alphabet(*lo, *hi).len() as u64).pow(ENUM_LEN)).sum()
}

/// the i-th enumerated case
pub fn enum_case(mut i: u64) -> Option<ACase> {
    for (lo, hi) in SMALL.iter() {
        let al = small_alphabet(*lo, *hi);
        let n = (al.len() as u64).pow(ENUM_LEN);
        if i < n {
            let mut ops = vec![];
            for _ in 0..ENUM_LEN {
                ops.push(al[(i % al.len() as u64) as usize].clone());
                i /= al.len() as u64;
            }
            return Some(ACase { wide: false, lo: *lo, hi: *hi, ops });
        }
        i -= n;
    }
    None
}

pub fn gen(r: &mut Rng, maxlen: u64) -> ACase {
    let wide = r.chance(1, 3);
    let (lo, hi) = if wide { *r.pick(&RANGES_W) } else { *r.pick(&RANGES_N) };
    let len = r.range(1, maxlen);
    let mut ops = vec![];
    let mut touched: Vec<u64> = vec![lo, hi];
    let near = |r: &mut Rng, touched: &Vec<u64>| -> u64 {
        let b = *r.pick(touched);
        match r.below(5) {
            0 => b.saturating_sub(1),
            1 => b + 1,
            2 => b.saturating_sub(2),
            3 => b + 2,
            _ => b,
        }
    };
    for _ in 0..len {
        let op = match r.below(20) {
            0..=5 => AOp::Allocate,
            6..=9 => {
                let x = near(r, &touched);
                touched.push(x);
                AOp::Use(x)
            }
            10..=14 => AOp::DeallocNth(r.below(8) as u32),
            15 => AOp::Clear,
            16 | 17 => AOp::IsUsed(if r.chance(1, 4) { *r.pick(&[0u64, 65535, 65536, 4294967295]) } else { near(r, &touched) }),
            18 => AOp::FirstVacant,
            _ => AOp::Count,
        };
        if touched.len() < 24 {
            if let AOp::Allocate = op {
                // allocation proceeds from the low end
                let n = touched.len() as u64;
                touched.push(lo + n.min(hi - lo));
            }
        }
        ops.push(op);
    }
    ACase { wide, lo, hi, ops }
}

#[cfg(test)]
mod t {
    #[test]
    fn total() {
        println!("enum_total = {}", super::enum_total());
    }
}
