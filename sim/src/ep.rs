//! Type-erased access to the real `GenericConnection<Role, PacketIdType>`.
//! Six monomorphic instantiations (Client/Server/Any x u16/u32) behind one object-safe
//! trait. Packet ids are widened to u32 in the harness. Every packet that crosses this
//! boundary towards the harness is re-encoded by the library (`to_continuous_buffer`, or
//! the concatenated `to_buffers`) and decoded by the harness's own codec (`wire`).

use crate::wire::{self, Pkt, Prop};
use mqtt_protocol_core::mqtt;
use mqtt_protocol_core::mqtt::connection::core::verif::VerifState;
use mqtt_protocol_core::mqtt::connection::role::RoleType;
use mqtt_protocol_core::mqtt::connection::{GenericEvent, TimerKind};
use mqtt_protocol_core::mqtt::packet::{
    GenericPacket, GenericPacketTrait, GenericStorePacket, IsPacketId, Qos,
};
use mqtt_protocol_core::mqtt::result_code::*;
use mqtt_protocol_core::mqtt::{GenericConnection, Version};
use serde::{Deserialize, Serialize};
use std::any::Any;

#[derive(Clone, Copy, Debug, PartialEq, Eq, Hash, Serialize, Deserialize, PartialOrd, Ord)]
pub enum Tk {
    PingreqSend,
    PingreqRecv,
    PingrespRecv,
}
impl Tk {
    pub const ALL: [Tk; 3] = [Tk::PingreqSend, Tk::PingreqRecv, Tk::PingrespRecv];
    pub fn ix(self) -> usize {
        self as usize
    }
    fn to_lib(self) -> TimerKind {
        match self {
            Tk::PingreqSend => TimerKind::PingreqSend,
            Tk::PingreqRecv => TimerKind::PingreqRecv,
            Tk::PingrespRecv => TimerKind::PingrespRecv,
        }
    }
    fn from_lib(k: TimerKind) -> Tk {
        match k {
            TimerKind::PingreqSend => Tk::PingreqSend,
            TimerKind::PingreqRecv => Tk::PingreqRecv,
            TimerKind::PingrespRecv => Tk::PingrespRecv,
        }
    }
}

/// MqttError as (numeric code, name)
#[derive(Clone, Debug, PartialEq, Eq, Serialize, Deserialize)]
pub struct Er(pub u16, pub String);
impl Er {
    fn of(e: MqttError) -> Er {
        Er(e as u16, format!("{e:?}"))
    }
}
pub const E_MALFORMED: u16 = 0x81;
pub const E_PROTOCOL: u16 = 0x82;
pub const E_RM_EXCEEDED: u16 = 0x93;
pub const E_TA_INVALID: u16 = 0x94;
pub const E_TOO_LARGE: u16 = 0x95;
pub const E_PID_FULL: u16 = 0x181;
pub const E_PID_INVALID: u16 = 0x183;
pub const E_NOT_ALLOWED: u16 = 0x184;
pub const E_VERSION_MISMATCH: u16 = 0x189;

#[derive(Clone, Debug, PartialEq, Eq, Serialize, Deserialize)]
pub enum Ev {
    Send {
        pkt: Pkt,
        #[serde(skip)]
        bytes: Vec<u8>,
        /// what `size()` reported
        size: usize,
        rel: Option<u32>,
    },
    Recv {
        pkt: Pkt,
    },
    Released(u32),
    TimerReset(Tk, u64),
    TimerCancel(Tk),
    Error(Er),
    Close,
}
impl Ev {
    pub fn short(&self) -> String {
        match self {
            Ev::Send { pkt, rel, .. } => match rel {
                Some(r) => format!("SEND[{}](rel_on_err={r})", pkt.short()),
                None => format!("SEND[{}]", pkt.short()),
            },
            Ev::Recv { pkt } => format!("RECV[{}]", pkt.short()),
            Ev::Released(i) => format!("RELEASED({i})"),
            Ev::TimerReset(k, ms) => format!("TIMER_RESET({k:?},{ms})"),
            Ev::TimerCancel(k) => format!("TIMER_CANCEL({k:?})"),
            Ev::Error(e) => format!("ERROR({})", e.1),
            Ev::Close => "CLOSE".into(),
        }
    }
    pub fn is_error(&self) -> bool {
        matches!(self, Ev::Error(_))
    }
    pub fn err_code(&self) -> Option<u16> {
        match self {
            Ev::Error(e) => Some(e.0),
            _ => None,
        }
    }
}
pub fn evs_short(evs: &[Ev]) -> String {
    let v: Vec<String> = evs.iter().map(|e| e.short()).collect();
    format!("[{}]", v.join(", "))
}

/// Sort maximal runs of consecutive `Released` events by id: the library emits them in
/// hash-set iteration order, which differs between processes (foldhash random state).
pub fn canonicalise(evs: &mut [Ev]) {
    let mut i = 0;
    while i < evs.len() {
        if matches!(evs[i], Ev::Released(_)) {
            let mut j = i;
            while j < evs.len() && matches!(evs[j], Ev::Released(_)) {
                j += 1;
            }
            evs[i..j].sort_by_key(|e| match e {
                Ev::Released(x) => *x,
                _ => 0,
            });
            i = j;
        } else {
            i += 1;
        }
    }
}

#[derive(Clone, Copy, Debug, PartialEq, Eq, Hash, Serialize, Deserialize)]
pub enum Role {
    Client,
    Server,
    Any,
}
#[derive(Clone, Copy, Debug, PartialEq, Eq, Hash, Serialize, Deserialize)]
pub enum Ver {
    V4,
    V5,
    Undet,
}
impl Ver {
    pub fn num(self) -> u8 {
        match self {
            Ver::V4 => 4,
            Ver::V5 => 5,
            Ver::Undet => 0,
        }
    }
    fn to_lib(self) -> Version {
        match self {
            Ver::V4 => Version::V3_1_1,
            Ver::V5 => Version::V5_0,
            Ver::Undet => Version::Undetermined,
        }
    }
}

/// Opaque durable export (what survives a crash).
pub struct Export(Box<dyn Any>);

/// Malformed-export variants for C16.
#[derive(Clone, Copy, Debug, PartialEq, Eq, Serialize, Deserialize)]
pub enum ExportMangle {
    None,
    DuplicateAll,
    AddQos0,
    /// not a mangle: the export is intact, but a server-side application restores it only after
    /// the CONNECT of the returning client has been received (a broker learns from the CONNECT
    /// whose session to restore)
    LateRestore,
}

pub trait Endpoint {
    fn idw(&self) -> usize;
    /// `send(GenericPacket)`; Err = the harness could not build the packet with the builders
    fn send(&mut self, p: &Pkt, vectored: bool) -> Result<Vec<Ev>, String>;
    /// one `recv` call on `buf[pos..]`; returns events and the new cursor position
    fn recv_once(&mut self, buf: &[u8], pos: usize) -> (Vec<Ev>, usize);
    fn timer(&mut self, k: Tk) -> Vec<Ev>;
    fn closed(&mut self) -> Vec<Ev>;
    fn acquire(&mut self) -> Result<u32, Er>;
    fn register(&mut self, id: u32) -> Result<(), Er>;
    fn release(&mut self, id: u32) -> Vec<Ev>;
    fn erase_stored(&mut self, id: u32) -> Vec<Ev>;
    fn set_pingreq_send_interval(&mut self, ms: Option<u64>) -> Vec<Ev>;
    fn set_pingresp_recv_timeout(&mut self, ms: u64);
    fn set_offline_publish(&mut self, b: bool);
    fn set_auto_pub_response(&mut self, b: bool);
    fn set_auto_ping_response(&mut self, b: bool);
    fn set_auto_map(&mut self, b: bool);
    fn set_auto_replace(&mut self, b: bool);
    fn vacancy(&self) -> Option<u16>;
    fn version(&self) -> u8;
    fn stored(&self) -> Vec<Pkt>;
    fn handled(&self) -> Vec<u32>;
    fn export(&self, mangle: ExportMangle) -> Export;
    fn restore(&mut self, e: &Export);
    fn state(&self) -> VerifState;
    /// `regulate_for_store` on a v5 PUBLISH
    fn regulate(&self, p: &Pkt) -> Result<Result<Pkt, Er>, String>;
    /// `checked_send(concrete packet)`: Ok(None) = the packet type does not implement
    /// `Sendable` for this role (the call would not compile)
    fn checked_send(&mut self, p: &Pkt) -> Result<Option<Vec<Ev>>, String>;
}

pub trait Pid: IsPacketId + Send + mqtt::packet::IntoPacketId<Self> {
    const W: usize;
    fn from32(x: u32) -> Option<Self>;
    fn to32(self) -> u32;
}
impl Pid for u16 {
    const W: usize = 2;
    fn from32(x: u32) -> Option<u16> {
        u16::try_from(x).ok()
    }
    fn to32(self) -> u32 {
        self as u32
    }
}
impl Pid for u32 {
    const W: usize = 4;
    fn from32(x: u32) -> Option<u32> {
        Some(x)
    }
    fn to32(self) -> u32 {
        self
    }
}

pub struct Ep<R: RoleType, P: Pid> {
    c: GenericConnection<R, P>,
}

pub fn new_endpoint(role: Role, ver: Ver, pid32: bool) -> Box<dyn Endpoint> {
    use mqtt::connection::role;
    let v = ver.to_lib();
    match (role, pid32) {
        (Role::Client, false) => Box::new(Ep::<role::Client, u16> {
            c: GenericConnection::new(v),
        }),
        (Role::Client, true) => Box::new(Ep::<role::Client, u32> {
            c: GenericConnection::new(v),
        }),
        (Role::Server, false) => Box::new(Ep::<role::Server, u16> {
            c: GenericConnection::new(v),
        }),
        (Role::Server, true) => Box::new(Ep::<role::Server, u32> {
            c: GenericConnection::new(v),
        }),
        (Role::Any, false) => Box::new(Ep::<role::Any, u16> {
            c: GenericConnection::new(v),
        }),
        (Role::Any, true) => Box::new(Ep::<role::Any, u32> {
            c: GenericConnection::new(v),
        }),
    }
}

fn qos_of(q: u8) -> Result<Qos, String> {
    match q {
        0 => Ok(Qos::AtMostOnce),
        1 => Ok(Qos::AtLeastOnce),
        2 => Ok(Qos::ExactlyOnce),
        _ => Err("qos".into()),
    }
}

fn props_of(ps: &[Prop]) -> Result<Vec<mqtt::packet::Property>, String> {
    use mqtt::packet as mp;
    let mut out = Vec::new();
    for p in ps {
        let x: mp::Property = match p {
            Prop::TopicAlias(v) => mp::TopicAlias::new(*v).map_err(|e| format!("{e:?}"))?.into(),
            Prop::TopicAliasMax(v) => mp::TopicAliasMaximum::new(*v)
                .map_err(|e| format!("{e:?}"))?
                .into(),
            Prop::ReceiveMax(v) => mp::ReceiveMaximum::new(*v)
                .map_err(|e| format!("{e:?}"))?
                .into(),
            Prop::MaxPacketSize(v) => mp::MaximumPacketSize::new(*v)
                .map_err(|e| format!("{e:?}"))?
                .into(),
            Prop::SessionExpiry(v) => mp::SessionExpiryInterval::new(*v)
                .map_err(|e| format!("{e:?}"))?
                .into(),
            Prop::ServerKeepAlive(v) => mp::ServerKeepAlive::new(*v)
                .map_err(|e| format!("{e:?}"))?
                .into(),
            Prop::MessageExpiry(v) => mp::MessageExpiryInterval::new(*v)
                .map_err(|e| format!("{e:?}"))?
                .into(),
            Prop::ReasonString(s) => mp::ReasonString::new(s.as_str())
                .map_err(|e| format!("{e:?}"))?
                .into(),
            Prop::User(k, v) => mp::UserProperty::new(k.as_str(), v.as_str())
                .map_err(|e| format!("{e:?}"))?
                .into(),
            Prop::Other(..) => return Err("Prop::Other cannot be built".into()),
        };
        out.push(x);
    }
    Ok(out)
}

macro_rules! es {
    ($e:expr) => {
        $e.map_err(|e| format!("{e:?}"))
    };
}

/// Build a library packet from the harness description, through the public builders.
pub fn build<P: Pid>(p: &Pkt) -> Result<GenericPacket<P>, String> {
    use mqtt::packet::{v3_1_1 as v3, v5_0 as v5};
    let id = |p: &Pkt| -> Result<P, String> {
        P::from32(p.id.ok_or("id missing")?).ok_or_else(|| "id out of range".to_string())
    };
    let has_props = !p.props.is_empty();
    Ok(match (p.v, p.kind) {
        (4, wire::CONNECT) => {
            let b = es!(v3::Connect::builder().client_id(p.client_id.as_str()))?
                .clean_session(p.clean)
                .keep_alive(p.keep_alive);
            es!(b.build())?.into()
        }
        (5, wire::CONNECT) => {
            let mut b = es!(v5::Connect::builder().client_id(p.client_id.as_str()))?
                .clean_start(p.clean)
                .keep_alive(p.keep_alive);
            if has_props {
                b = b.props(props_of(&p.props)?);
            }
            es!(b.build())?.into()
        }
        (4, wire::CONNACK) => {
            let rc = es!(ConnectReturnCode::try_from(p.rc_or0()))?;
            es!(v3::Connack::builder()
                .session_present(p.sp)
                .return_code(rc)
                .build())?
            .into()
        }
        (5, wire::CONNACK) => {
            let rc = es!(ConnectReasonCode::try_from(p.rc_or0()))?;
            let mut b = v5::Connack::builder().session_present(p.sp).reason_code(rc);
            if has_props {
                b = b.props(props_of(&p.props)?);
            }
            es!(b.build())?.into()
        }
        (4, wire::PUBLISH) => {
            let mut b = es!(v3::GenericPublish::<P>::builder().topic_name(p.topic.as_str()))?
                .qos(qos_of(p.qos)?)
                .dup(p.dup)
                .retain(p.retain)
                .payload(p.payload.clone());
            if p.id.is_some() {
                b = b.packet_id(id(p)?);
            }
            es!(b.build())?.into()
        }
        (5, wire::PUBLISH) => {
            let mut b = es!(v5::GenericPublish::<P>::builder().topic_name(p.topic.as_str()))?
                .qos(qos_of(p.qos)?)
                .dup(p.dup)
                .retain(p.retain)
                .payload(p.payload.clone());
            if p.id.is_some() {
                b = b.packet_id(id(p)?);
            }
            if has_props {
                b = b.props(props_of(&p.props)?);
            }
            es!(b.build())?.into()
        }
        (4, wire::PUBACK) => es!(v3::GenericPuback::<P>::builder().packet_id(id(p)?).build())?.into(),
        (4, wire::PUBREC) => es!(v3::GenericPubrec::<P>::builder().packet_id(id(p)?).build())?.into(),
        (4, wire::PUBREL) => es!(v3::GenericPubrel::<P>::builder().packet_id(id(p)?).build())?.into(),
        (4, wire::PUBCOMP) => {
            es!(v3::GenericPubcomp::<P>::builder().packet_id(id(p)?).build())?.into()
        }
        (5, wire::PUBACK) => {
            let mut b = v5::GenericPuback::<P>::builder().packet_id(id(p)?);
            if let Some(rc) = p.rc {
                b = b.reason_code(es!(PubackReasonCode::try_from(rc))?);
            }
            if has_props {
                b = b.props(props_of(&p.props)?);
            }
            es!(b.build())?.into()
        }
        (5, wire::PUBREC) => {
            let mut b = v5::GenericPubrec::<P>::builder().packet_id(id(p)?);
            if let Some(rc) = p.rc {
                b = b.reason_code(es!(PubrecReasonCode::try_from(rc))?);
            }
            if has_props {
                b = b.props(props_of(&p.props)?);
            }
            es!(b.build())?.into()
        }
        (5, wire::PUBREL) => {
            let mut b = v5::GenericPubrel::<P>::builder().packet_id(id(p)?);
            if let Some(rc) = p.rc {
                b = b.reason_code(es!(PubrelReasonCode::try_from(rc))?);
            }
            if has_props {
                b = b.props(props_of(&p.props)?);
            }
            es!(b.build())?.into()
        }
        (5, wire::PUBCOMP) => {
            let mut b = v5::GenericPubcomp::<P>::builder().packet_id(id(p)?);
            if let Some(rc) = p.rc {
                b = b.reason_code(es!(PubcompReasonCode::try_from(rc))?);
            }
            if has_props {
                b = b.props(props_of(&p.props)?);
            }
            es!(b.build())?.into()
        }
        (4, wire::SUBSCRIBE) | (5, wire::SUBSCRIBE) => {
            let mut entries = Vec::new();
            for (f, o) in &p.filters {
                let opts = es!(mqtt::packet::SubOpts::from_u8(*o))?;
                entries.push(es!(mqtt::packet::SubEntry::new(f.as_str(), opts))?);
            }
            if p.v == 4 {
                es!(v3::GenericSubscribe::<P>::builder()
                    .packet_id(id(p)?)
                    .entries(entries)
                    .build())?
                .into()
            } else {
                let mut b = v5::GenericSubscribe::<P>::builder()
                    .packet_id(id(p)?)
                    .entries(entries);
                if has_props {
                    b = b.props(props_of(&p.props)?);
                }
                es!(b.build())?.into()
            }
        }
        (4, wire::UNSUBSCRIBE) => {
            let fs: Vec<&str> = p.filters.iter().map(|(f, _)| f.as_str()).collect();
            es!(es!(v3::GenericUnsubscribe::<P>::builder()
                .packet_id(id(p)?)
                .entries(fs))?
            .build())?
            .into()
        }
        (5, wire::UNSUBSCRIBE) => {
            let fs: Vec<&str> = p.filters.iter().map(|(f, _)| f.as_str()).collect();
            let mut b = es!(v5::GenericUnsubscribe::<P>::builder()
                .packet_id(id(p)?)
                .entries(fs))?;
            if has_props {
                b = b.props(props_of(&p.props)?);
            }
            es!(b.build())?.into()
        }
        (4, wire::SUBACK) => {
            let mut codes = Vec::new();
            for c in &p.rcs {
                codes.push(es!(SubackReturnCode::try_from(*c))?);
            }
            es!(v3::GenericSuback::<P>::builder()
                .packet_id(id(p)?)
                .return_codes(codes)
                .build())?
            .into()
        }
        (5, wire::SUBACK) => {
            let mut codes = Vec::new();
            for c in &p.rcs {
                codes.push(es!(SubackReasonCode::try_from(*c))?);
            }
            let mut b = v5::GenericSuback::<P>::builder()
                .packet_id(id(p)?)
                .reason_codes(codes);
            if has_props {
                b = b.props(props_of(&p.props)?);
            }
            es!(b.build())?.into()
        }
        (4, wire::UNSUBACK) => {
            es!(v3::GenericUnsuback::<P>::builder().packet_id(id(p)?).build())?.into()
        }
        (5, wire::UNSUBACK) => {
            let mut codes = Vec::new();
            for c in &p.rcs {
                codes.push(es!(UnsubackReasonCode::try_from(*c))?);
            }
            let mut b = v5::GenericUnsuback::<P>::builder()
                .packet_id(id(p)?)
                .reason_codes(codes);
            if has_props {
                b = b.props(props_of(&p.props)?);
            }
            es!(b.build())?.into()
        }
        (4, wire::PINGREQ) => v3::Pingreq::new().into(),
        (5, wire::PINGREQ) => v5::Pingreq::new().into(),
        (4, wire::PINGRESP) => v3::Pingresp::new().into(),
        (5, wire::PINGRESP) => v5::Pingresp::new().into(),
        (4, wire::DISCONNECT) => v3::Disconnect::new().into(),
        (5, wire::DISCONNECT) => {
            let mut b = v5::Disconnect::builder();
            if let Some(rc) = p.rc {
                b = b.reason_code(es!(DisconnectReasonCode::try_from(rc))?);
            }
            if has_props {
                b = b.props(props_of(&p.props)?);
            }
            es!(b.build())?.into()
        }
        (5, wire::AUTH) => {
            let mut b = v5::Auth::builder();
            if let Some(rc) = p.rc {
                b = b.reason_code(es!(AuthReasonCode::try_from(rc))?);
            }
            if has_props {
                b = b.props(props_of(&p.props)?);
            }
            es!(b.build())?.into()
        }
        _ => return Err(format!("cannot build v{} kind {}", p.v, p.kind)),
    })
}

fn version_of<P: IsPacketId>(g: &GenericPacket<P>) -> u8 {
    match g.protocol_version() {
        Version::V3_1_1 => 4,
        Version::V5_0 => 5,
        Version::Undetermined => 0,
    }
}

fn to_pkt<P: Pid>(g: &GenericPacket<P>, vectored: bool) -> (Pkt, Vec<u8>) {
    let bytes = if vectored {
        let mut b = Vec::new();
        for s in g.to_buffers() {
            b.extend_from_slice(&s);
        }
        b
    } else {
        g.to_continuous_buffer()
    };
    match wire::decode(&bytes, version_of(g), P::W) {
        Ok(p) => (p, bytes),
        Err(e) => {
            // The library handed out a packet whose serialisation the independent codec
            // cannot read: keep the bytes, flag it through kind 0 so that monitors see it.
            let mut p = Pkt::new(version_of(g), 0);
            p.topic = format!("UNDECODABLE: {e}");
            p.payload = bytes.clone();
            (p, bytes)
        }
    }
}

impl<R: RoleType, P: Pid> Ep<R, P> {
    fn conv(&self, evs: Vec<GenericEvent<P>>, vectored: bool) -> Vec<Ev> {
        let mut out: Vec<Ev> = evs
            .into_iter()
            .map(|e| match e {
                GenericEvent::RequestSendPacket {
                    packet,
                    release_packet_id_if_send_error,
                } => {
                    let size = packet.size();
                    let (pkt, bytes) = to_pkt(&packet, vectored);
                    Ev::Send {
                        pkt,
                        bytes,
                        size,
                        rel: release_packet_id_if_send_error.map(|x| x.to32()),
                    }
                }
                GenericEvent::NotifyPacketReceived(packet) => Ev::Recv {
                    pkt: to_pkt(&packet, false).0,
                },
                GenericEvent::NotifyPacketIdReleased(id) => Ev::Released(id.to32()),
                GenericEvent::RequestTimerReset { kind, duration_ms } => {
                    Ev::TimerReset(Tk::from_lib(kind), duration_ms)
                }
                GenericEvent::RequestTimerCancel(kind) => Ev::TimerCancel(Tk::from_lib(kind)),
                GenericEvent::NotifyError(e) => Ev::Error(Er::of(e)),
                GenericEvent::RequestClose => Ev::Close,
            })
            .collect();
        canonicalise(&mut out);
        out
    }
}

// ---- compile-time checked send, decided per concrete role by autoref specialisation ----

struct Try<'a, R: RoleType, P: Pid, T>(std::cell::RefCell<&'a mut GenericConnection<R, P>>, std::cell::RefCell<Option<T>>);
trait ViaSendable<P: Pid> {
    fn go(&self) -> Option<Vec<GenericEvent<P>>>;
}
impl<'a, R: RoleType, P: Pid, T: mqtt::connection::Sendable<R, P>> ViaSendable<P> for Try<'a, R, P, T> {
    fn go(&self) -> Option<Vec<GenericEvent<P>>> {
        let t = self.1.borrow_mut().take().unwrap();
        Some(self.0.borrow_mut().checked_send(t))
    }
}
trait ViaNothing<P: Pid> {
    fn go(&self) -> Option<Vec<GenericEvent<P>>>;
}
impl<'a, 'b, R: RoleType, P: Pid, T> ViaNothing<P> for &'b Try<'a, R, P, T> {
    fn go(&self) -> Option<Vec<GenericEvent<P>>> {
        None
    }
}

pub trait CheckedSend<P: Pid> {
    fn checked(&mut self, g: GenericPacket<P>) -> Option<Vec<GenericEvent<P>>>;
}
macro_rules! checked_impl {
    ($role:ty) => {
        impl<P: Pid> CheckedSend<P> for GenericConnection<$role, P> {
            fn checked(&mut self, g: GenericPacket<P>) -> Option<Vec<GenericEvent<P>>> {
                macro_rules! t {
                    ($x:expr) => {
                        (&Try(std::cell::RefCell::new(self), std::cell::RefCell::new(Some($x)))).go()
                    };
                }
                match g {
                    GenericPacket::V3_1_1Connect(x) => t!(x),
                    GenericPacket::V3_1_1Connack(x) => t!(x),
                    GenericPacket::V3_1_1Subscribe(x) => t!(x),
                    GenericPacket::V3_1_1Suback(x) => t!(x),
                    GenericPacket::V3_1_1Unsubscribe(x) => t!(x),
                    GenericPacket::V3_1_1Unsuback(x) => t!(x),
                    GenericPacket::V3_1_1Publish(x) => t!(x),
                    GenericPacket::V3_1_1Puback(x) => t!(x),
                    GenericPacket::V3_1_1Pubrec(x) => t!(x),
                    GenericPacket::V3_1_1Pubrel(x) => t!(x),
                    GenericPacket::V3_1_1Pubcomp(x) => t!(x),
                    GenericPacket::V3_1_1Disconnect(x) => t!(x),
                    GenericPacket::V3_1_1Pingreq(x) => t!(x),
                    GenericPacket::V3_1_1Pingresp(x) => t!(x),
                    GenericPacket::V5_0Connect(x) => t!(x),
                    GenericPacket::V5_0Connack(x) => t!(x),
                    GenericPacket::V5_0Subscribe(x) => t!(x),
                    GenericPacket::V5_0Suback(x) => t!(x),
                    GenericPacket::V5_0Unsubscribe(x) => t!(x),
                    GenericPacket::V5_0Unsuback(x) => t!(x),
                    GenericPacket::V5_0Publish(x) => t!(x),
                    GenericPacket::V5_0Puback(x) => t!(x),
                    GenericPacket::V5_0Pubrec(x) => t!(x),
                    GenericPacket::V5_0Pubrel(x) => t!(x),
                    GenericPacket::V5_0Pubcomp(x) => t!(x),
                    GenericPacket::V5_0Disconnect(x) => t!(x),
                    GenericPacket::V5_0Pingreq(x) => t!(x),
                    GenericPacket::V5_0Pingresp(x) => t!(x),
                    GenericPacket::V5_0Auth(x) => t!(x),
                }
            }
        }
    };
}
checked_impl!(mqtt::connection::role::Client);
checked_impl!(mqtt::connection::role::Server);
checked_impl!(mqtt::connection::role::Any);

impl<R: RoleType + 'static, P: Pid> Endpoint for Ep<R, P>
where
    GenericConnection<R, P>: CheckedSend<P>,
{
    fn checked_send(&mut self, p: &Pkt) -> Result<Option<Vec<Ev>>, String> {
        let g = build::<P>(p)?;
        Ok(self.c.checked(g).map(|evs| self.conv(evs, false)))
    }
    fn idw(&self) -> usize {
        P::W
    }
    fn send(&mut self, p: &Pkt, vectored: bool) -> Result<Vec<Ev>, String> {
        let g = build::<P>(p)?;
        let evs = self.c.send(g);
        Ok(self.conv(evs, vectored))
    }
    fn recv_once(&mut self, buf: &[u8], pos: usize) -> (Vec<Ev>, usize) {
        let mut cur = mqtt::common::Cursor::new(buf);
        cur.set_position(pos as u64);
        let evs = self.c.recv(&mut cur);
        let np = cur.position() as usize;
        (self.conv(evs, false), np)
    }
    fn timer(&mut self, k: Tk) -> Vec<Ev> {
        let evs = self.c.notify_timer_fired(k.to_lib());
        self.conv(evs, false)
    }
    fn closed(&mut self) -> Vec<Ev> {
        let evs = self.c.notify_closed();
        self.conv(evs, false)
    }
    fn acquire(&mut self) -> Result<u32, Er> {
        self.c.acquire_packet_id().map(|x| x.to32()).map_err(Er::of)
    }
    fn register(&mut self, id: u32) -> Result<(), Er> {
        match P::from32(id) {
            Some(x) => self.c.register_packet_id(x).map_err(Er::of),
            None => Err(Er(0xffff, "IdOutOfTypeRange".into())),
        }
    }
    fn release(&mut self, id: u32) -> Vec<Ev> {
        match P::from32(id) {
            Some(x) => {
                let evs = self.c.release_packet_id(x);
                self.conv(evs, false)
            }
            None => vec![],
        }
    }
    fn erase_stored(&mut self, id: u32) -> Vec<Ev> {
        match P::from32(id) {
            Some(x) => {
                let evs = self.c.erase_stored_publish(x);
                self.conv(evs, false)
            }
            None => vec![],
        }
    }
    fn set_pingreq_send_interval(&mut self, ms: Option<u64>) -> Vec<Ev> {
        let evs = self.c.set_pingreq_send_interval(ms);
        self.conv(evs, false)
    }
    fn set_pingresp_recv_timeout(&mut self, ms: u64) {
        self.c.set_pingresp_recv_timeout(ms)
    }
    fn set_offline_publish(&mut self, b: bool) {
        self.c.set_offline_publish(b)
    }
    fn set_auto_pub_response(&mut self, b: bool) {
        self.c.set_auto_pub_response(b)
    }
    fn set_auto_ping_response(&mut self, b: bool) {
        self.c.set_auto_ping_response(b)
    }
    fn set_auto_map(&mut self, b: bool) {
        self.c.set_auto_map_topic_alias_send(b)
    }
    fn set_auto_replace(&mut self, b: bool) {
        self.c.set_auto_replace_topic_alias_send(b)
    }
    fn vacancy(&self) -> Option<u16> {
        self.c.get_receive_maximum_vacancy_for_send()
    }
    fn version(&self) -> u8 {
        match self.c.get_protocol_version() {
            Version::V3_1_1 => 4,
            Version::V5_0 => 5,
            Version::Undetermined => 0,
        }
    }
    fn stored(&self) -> Vec<Pkt> {
        self.c
            .get_stored_packets()
            .into_iter()
            .map(|sp| {
                let g: GenericPacket<P> = sp.into();
                to_pkt(&g, false).0
            })
            .collect()
    }
    fn handled(&self) -> Vec<u32> {
        let mut v: Vec<u32> = self
            .c
            .get_qos2_publish_handled()
            .into_iter()
            .map(|x| x.to32())
            .collect();
        v.sort_unstable();
        v
    }
    fn export(&self, mangle: ExportMangle) -> Export {
        let mut pk: Vec<GenericStorePacket<P>> = self.c.get_stored_packets();
        let mut h: Vec<P> = self.c.get_qos2_publish_handled().into_iter().collect();
        h.sort_unstable();
        match mangle {
            ExportMangle::None | ExportMangle::LateRestore => {}
            ExportMangle::DuplicateAll => {
                let d = pk.clone();
                pk.extend(d);
            }
            ExportMangle::AddQos0 => {
                // a QoS0 PUBLISH cannot be converted into a store packet through the
                // public API (try_into refuses); duplicate the first entry instead and
                // keep the variant for the evidence
                if let Some(f) = pk.first().cloned() {
                    pk.insert(0, f);
                }
            }
        }
        Export(Box::new((pk, h)))
    }
    fn restore(&mut self, e: &Export) {
        let (pk, h) = e
            .0
            .downcast_ref::<(Vec<GenericStorePacket<P>>, Vec<P>)>()
            .expect("export of a different id width");
        self.c.restore_packets(pk.clone());
        let mut hs = mqtt::common::HashSet::default();
        for x in h {
            hs.insert(*x);
        }
        self.c.restore_qos2_publish_handled(hs);
    }
    fn state(&self) -> VerifState {
        self.c.verif_state()
    }
    fn regulate(&self, p: &Pkt) -> Result<Result<Pkt, Er>, String> {
        let g = build::<P>(p)?;
        match g {
            GenericPacket::V5_0Publish(pp) => Ok(match self.c.regulate_for_store(pp) {
                Ok(r) => {
                    let g2: GenericPacket<P> = r.into();
                    Ok(to_pkt(&g2, false).0)
                }
                Err(e) => Err(Er::of(e)),
            }),
            _ => Err("regulate: not a v5 publish".into()),
        }
    }
}
