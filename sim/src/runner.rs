//! Batch driver: seeded search over runs on all cores, minimisation, replay files,
//! known-findings handling, evidence.

use crate::model::{Stats, Violation};
use crate::rng::Rng;
use crate::scen::{self, Case, Outcome, Tier};
use serde_json::json;
use std::collections::{BTreeMap, HashSet};
use std::sync::atomic::{AtomicBool, AtomicU64, Ordering};
use std::sync::Mutex;
use std::time::Instant;

/// per-worker cap of the distinct-case hash sets (memory bound; the evidence says when it was hit)
const SET_CAP: usize = 3_000_000;

pub const PROPS: [&str; 16] = ["C01", "C05", "C06", "C07", "C08", "C09", "C10", "C11", "C12", "C13", "C14", "C15", "C16", "C17", "C19", "C20"];

fn budget(prop: &str, tier: Tier) -> u64 {
    // runs per batch; sized for ~15-30 s (quick) and ~4-6 min (thorough) on 16 cores
    let (q, t) = match prop {
        "C01" => (700_000, 10_000_000),
        "C05" => (1_500_000, 20_000_000),
        "C09" => (14_000, 200_000),
        "C10" => (500_000, 8_000_000),
        "C11" => (600_000, 8_000_000),
        "C16" => (40_000, 600_000),
        "C17" => (900_000, 10_000_000),
        "C20" => (12_000_000, 100_000_000),
        _ => (1_200_000, 16_000_000),
    };
    if tier == Tier::Quick {
        q
    } else {
        t
    }
}

struct Found {
    run: u64,
    case: Case,
    viol: Violation,
    log: Vec<String>,
}

#[derive(Default)]
struct Agg {
    stats: Stats,
    faults: BTreeMap<String, u64>,
    steps: u64,
    sim_ms: u64,
    runs: u64,
    nontrivial_shapes: HashSet<u64>,
    shapes: HashSet<u64>,
    states: HashSet<u64>,
    foreign: BTreeMap<String, u64>,
    own: BTreeMap<String, u64>,
    samples: Vec<(u64, Case)>,
    trace_hash: u64,
}

fn matches_prop(v: &Violation, prop: &str) -> bool {
    v.props.iter().any(|p| *p == prop)
}

/// ddmin-style minimisation: delete op chunks, then single ops, then simplify arguments and
/// configuration, while the same {property, class} still fires.
pub fn minimise(prop: &str, case: &Case, class: &str) -> Case {
    let still = |c: &Case| -> bool {
        let o = scen::replay(prop, c);
        o.viol.as_ref().map_or(false, |v| v.class == class && matches_prop(v, prop))
    };
    let mut cur = case.clone();
    let mut chunk = (cur.len() / 2).max(1);
    let mut budget = 4000usize;
    loop {
        let mut progressed = false;
        let mut i = 0;
        while i < cur.len() && budget > 0 {
            let n = cur.len();
            let keep: Vec<bool> = (0..n).map(|k| k < i || k >= i + chunk).collect();
            let cand = cur.subset(&keep);
            budget -= 1;
            if cand.len() < n && still(&cand) {
                cur = cand;
                progressed = true;
            } else {
                i += chunk;
            }
        }
        if chunk == 1 && !progressed {
            break;
        }
        if !progressed || chunk > 1 {
            chunk = (chunk / 2).max(1);
        }
        if budget == 0 {
            break;
        }
    }
    // simpler arguments / configuration
    let mut changed = true;
    while changed && budget > 0 {
        changed = false;
        for cand in cur.simpler_variants() {
            if budget == 0 {
                break;
            }
            budget -= 1;
            if still(&cand) {
                cur = cand;
                changed = true;
                break;
            }
        }
    }
    cur
}

struct Known {
    prop: String,
    class: String,
    text: String,
    /// minimised replay of the finding (findings/...json), if the entry names one
    file: Option<String>,
}

fn load_known() -> Vec<Known> {
    let mut out = vec![];
    let Ok(s) = std::fs::read_to_string("KNOWN_FINDINGS.txt") else { return out };
    for l in s.lines() {
        let l = l.trim();
        if let Some(rest) = l.strip_prefix("known:") {
            let mut prop = String::new();
            let mut class = String::new();
            let mut text = vec![];
            for tok in rest.split_whitespace() {
                if let Some(p) = tok.strip_prefix("property=") {
                    prop = p.to_string();
                } else if let Some(c) = tok.strip_prefix("class=") {
                    class = c.to_string();
                } else {
                    text.push(tok);
                }
            }
            if !prop.is_empty() && !class.is_empty() {
                let file = text.iter().find_map(|t| {
                    let t = t.trim_matches(|c| c == '(' || c == ')' || c == ';' || c == ',');
                    if t.starts_with("findings/") && t.ends_with(".json") {
                        Some(t.to_string())
                    } else {
                        None
                    }
                });
                out.push(Known { prop, class, text: text.join(" "), file });
            }
        }
    }
    out
}

pub fn cli(args: Vec<String>) -> i32 {
    if args.is_empty() {
        eprintln!("usage: simcheck <PROP|selftest> [--tier quick|thorough] [--seed N] [--runs N] [--threads N] [--replay FILE] [--trace-hash]");
        return 2;
    }
    let prop = args[0].clone();
    let mut tier = match std::env::var("VERIF_TIER").as_deref() {
        Ok("thorough") => Tier::Thorough,
        _ => Tier::Quick,
    };
    let mut seed: u64 = std::env::var("VERIF_SEED").ok().and_then(|s| s.parse().ok()).unwrap_or(1);
    let mut runs: Option<u64> = None;
    let mut threads: usize = std::thread::available_parallelism().map(|n| n.get()).unwrap_or(8).min(16);
    let mut replay: Option<String> = None;
    let mut trace_hash = false;
    let mut write_evidence = true;
    let mut gen_as: Option<String> = None;
    let mut i = 1;
    while i < args.len() {
        match args[i].as_str() {
            "--tier" => {
                i += 1;
                tier = if args[i] == "thorough" { Tier::Thorough } else { Tier::Quick };
            }
            "--seed" => {
                i += 1;
                seed = args[i].parse().unwrap_or(1);
            }
            "--runs" => {
                i += 1;
                runs = args[i].parse().ok();
            }
            "--threads" => {
                i += 1;
                threads = args[i].parse().unwrap_or(1);
            }
            "--replay" => {
                i += 1;
                replay = Some(args[i].clone());
            }
            "--trace-hash" => trace_hash = true,
            "--gen-as" => {
                i += 1;
                gen_as = Some(args[i].clone());
            }
            "--no-evidence" => write_evidence = false,
            x => {
                eprintln!("unknown argument {x}");
                return 2;
            }
        }
        i += 1;
    }
    if let Some(f) = replay {
        return do_replay(&f);
    }
    if !PROPS.contains(&prop.as_str()) {
        eprintln!("unknown property {prop}");
        return 2;
    }
    let g = gen_as.unwrap_or_else(|| prop.clone());
    batch(&prop, &g, tier, seed, runs.unwrap_or_else(|| budget(&prop, tier)), threads, trace_hash, write_evidence)
}

fn do_replay(file: &str) -> i32 {
    let Ok(s) = std::fs::read_to_string(file) else {
        eprintln!("cannot read {file}");
        return 2;
    };
    let Ok(j) = serde_json::from_str::<serde_json::Value>(&s) else {
        eprintln!("cannot parse {file}");
        return 2;
    };
    let prop = j["property"].as_str().unwrap_or("").to_string();
    let class = j["class"].as_str().unwrap_or("").to_string();
    if j["hang"].as_bool() == Some(true) {
        // re-run the adaptive run under the watchdog
        let g = j["gen_prop"].as_str().unwrap_or(&prop).to_string();
        let tier = if j["tier"].as_str() == Some("thorough") { Tier::Thorough } else { Tier::Quick };
        let run = j["run"].as_u64().unwrap_or(0);
        let seed = j["seed"].as_u64().unwrap_or(1);
        let file2 = file.to_string();
        let prop2 = prop.clone();
        std::thread::spawn(move || {
            std::thread::sleep(std::time::Duration::from_secs(60));
            println!("VIOLATION property={prop2} replay={file2}");
            std::process::exit(1);
        });
        let mut rng = Rng::for_run(seed, &g, run);
        let _ = scen::generate(&g, &mut rng, tier, run);
        println!("replay of {file}: the run returned");
        return 0;
    }
    let case: Case = match serde_json::from_value(j["case"].clone()) {
        Ok(c) => c,
        Err(e) => {
            eprintln!("bad case in {file}: {e}");
            return 2;
        }
    };
    let o = scen::replay(&prop, &case);
    for l in &o.log {
        println!("  {l}");
    }
    match o.viol {
        Some(v) if matches_prop(&v, &prop) => {
            println!("violation class={} (recorded class={}) step={} :: {}", v.class, class, v.step, v.msg);
            let abs = std::fs::canonicalize(file).map(|p| p.display().to_string()).unwrap_or(file.to_string());
            println!("VIOLATION property={prop} replay={abs}");
            1
        }
        Some(v) => {
            println!("run ended by a violation of other properties {:?}: {} :: {}", v.props, v.class, v.msg);
            0
        }
        None => {
            println!("replay of {file}: no violation");
            0
        }
    }
}

fn batch(prop: &str, gen_prop: &str, tier: Tier, seed: u64, runs: u64, threads: usize, trace_hash: bool, write_evidence: bool) -> i32 {
    let t0 = Instant::now();
    println!("simcheck property={prop} tier={:?} VERIF_SEED={seed} runs={runs} threads={threads}", tier);
    let next = AtomicU64::new(0);
    let found: Mutex<BTreeMap<String, Found>> = Mutex::new(BTreeMap::new());
    let agg: Mutex<Agg> = Mutex::new(Agg::default());
    let harness_err = AtomicBool::new(false);
    let wall_cap = if tier == Tier::Quick { 120.0 } else { 1500.0 };
    // watchdog: a library call that does not return within 20 s of wall time is a violation
    let beats: Vec<(AtomicU64, AtomicU64)> = (0..threads).map(|_| (AtomicU64::new(u64::MAX), AtomicU64::new(0))).collect();
    let done = AtomicBool::new(false);
    std::thread::scope(|sc| {
        sc.spawn(|| {
            while !done.load(Ordering::Relaxed) {
                std::thread::sleep(std::time::Duration::from_millis(500));
                let now = t0.elapsed().as_millis() as u64;
                for b in beats.iter() {
                    let run = b.0.load(Ordering::Relaxed);
                    let since = b.1.load(Ordering::Relaxed);
                    if run != u64::MAX && now.saturating_sub(since) > 60_000 {
                        // re-execute that run in a thread of its own: only a run that does not
                        // return there either is reported (a stalled worker is not a verdict)
                        let (gp, sd, tr) = (gen_prop.to_string(), seed, tier);
                        let (tx, rx) = std::sync::mpsc::channel();
                        std::thread::spawn(move || {
                            let mut rng = Rng::for_run(sd, &gp, run);
                            let _ = scen::generate(&gp, &mut rng, tr, run);
                            let _ = tx.send(());
                        });
                        if rx.recv_timeout(std::time::Duration::from_secs(60)).is_ok() {
                            eprintln!("note: worker stalled on run {run} for more than 60 s of wall time, but the run returns when re-executed: not a verdict");
                            b.1.store(t0.elapsed().as_millis() as u64, Ordering::Relaxed);
                            continue;
                        }
                        let _ = std::fs::create_dir_all("replays");
                        let path = format!("replays/{prop}-{seed}-{run}-hang.json");
                        let j = json!({"property": prop, "class": "call-did-not-return", "seed": seed, "run": run, "hang": true, "gen_prop": gen_prop, "tier": if tier == Tier::Quick { "quick" } else { "thorough" }});
                        std::fs::write(&path, serde_json::to_string_pretty(&j).unwrap()).ok();
                        let abs = std::fs::canonicalize(&path).map(|p| p.display().to_string()).unwrap_or(path.clone());
                        println!("violation class=call-did-not-return run={run}: the run does not return (60 s in the batch, 60 s re-executed alone)");
                        if prop == "C05" || prop == "C01" {
                            println!("VIOLATION property={prop} replay={abs}");
                            std::process::exit(1);
                        } else {
                            eprintln!("HARNESS ERROR: run {run} hangs (unbounded loop is C05's verdict); see {abs}");
                            std::process::exit(2);
                        }
                    }
                }
            }
        });
        let mut handles = vec![];
        for wi in 0..threads {
            let beats = &beats;
            let next = &next;
            let found = &found;
            let agg = &agg;
            let harness_err = &harness_err;
            handles.push(sc.spawn(move || {
                let mut local = Agg::default();
                loop {
                    let run = next.fetch_add(1, Ordering::Relaxed);
                    if run >= runs || t0.elapsed().as_secs_f64() > wall_cap {
                        beats[wi].0.store(u64::MAX, Ordering::Relaxed);
                        break;
                    }
                    beats[wi].1.store(t0.elapsed().as_millis() as u64, Ordering::Relaxed);
                    beats[wi].0.store(run, Ordering::Relaxed);
                    let mut rng = Rng::for_run(seed, gen_prop, run);
                    let (case, o) = scen::generate(gen_prop, &mut rng, tier, run);
                    absorb(&mut local, prop, run, &case, &o, trace_hash);
                    if let Some(v) = &o.viol {
                        if v.props.is_empty() {
                            eprintln!("HARNESS ERROR run={run}: {} :: {}", v.class, v.msg);
                            harness_err.store(true, Ordering::Relaxed);
                        } else if matches_prop(v, prop) {
                            let mut f = found.lock().unwrap();
                            let e = f.get(&v.class);
                            if e.map_or(true, |e| run < e.run) {
                                f.insert(v.class.clone(), Found { run, case: case.clone(), viol: v.clone(), log: o.log.clone() });
                            }
                        }
                    }
                }
                let mut a = agg.lock().unwrap();
                merge(&mut a, local);
            }));
        }
        for h in handles {
            let _ = h.join();
        }
        done.store(true, Ordering::Relaxed);
    });
    let mut a = agg.into_inner().unwrap();
    let mut found = found.into_inner().unwrap();
    // directed part of the search: the recorded schedules of corpus/<property>/ (minimised
    // histories that once exposed a seeded change) are re-played on every check, so that what
    // the random search found once does not depend on the generator's distribution staying put
    let mut corpus_cases = 0u64;
    if !trace_hash {
        let mut files: Vec<std::path::PathBuf> = std::fs::read_dir(format!("corpus/{prop}")).map(|d| d.filter_map(|e| e.ok()).map(|e| e.path()).filter(|p| p.extension().map_or(false, |x| x == "json")).collect()).unwrap_or_default();
        files.sort();
        for (i, file) in files.iter().enumerate() {
            let case = std::fs::read_to_string(file).ok().and_then(|s| serde_json::from_str::<serde_json::Value>(&s).ok()).and_then(|j| serde_json::from_value::<Case>(j["case"].clone()).ok());
            let Some(case) = case else {
                eprintln!("HARNESS ERROR: corpus file {} does not parse", file.display());
                harness_err.store(true, Ordering::Relaxed);
                continue;
            };
            corpus_cases += 1;
            let o = scen::replay(prop, &case);
            if let Some(v) = &o.viol {
                if v.props.is_empty() {
                    eprintln!("HARNESS ERROR corpus {}: {} :: {}", file.display(), v.class, v.msg);
                    harness_err.store(true, Ordering::Relaxed);
                } else if matches_prop(v, prop) && !found.contains_key(&v.class) {
                    found.insert(v.class.clone(), Found { run: 1_000_000_000 + i as u64, case: case.clone(), viol: v.clone(), log: o.log.clone() });
                }
            }
        }
    }
    let known = load_known();
    let mut exit = 0;
    let mut known_seen = vec![];
    // every listed finding of this property is re-played from its file: the line is printed
    // whether or not the seeded search happens to run into it again
    for k in known.iter().filter(|k| k.prop == prop) {
        let Some(file) = &k.file else { continue };
        let reproduced = std::fs::read_to_string(file)
            .ok()
            .and_then(|s| serde_json::from_str::<serde_json::Value>(&s).ok())
            .and_then(|j| serde_json::from_value::<Case>(j["case"].clone()).ok())
            .map(|case| scen::replay(prop, &case))
            .and_then(|o| o.viol)
            .map_or(false, |v| v.class == k.class || v.class.ends_with(&k.class));
        if reproduced {
            println!("KNOWN-FINDING: property={prop} class={} {}", k.class, k.text);
            known_seen.push(k.class.clone());
        } else {
            println!("note: listed finding property={prop} class={} does not reproduce from {file} on this tree (repaired?)", k.class);
        }
    }
    let mut violations = 0;
    let _ = std::fs::create_dir_all("replays");
    let _ = std::fs::create_dir_all("evidence");
    for (class, f) in &found {
        // replay fidelity: the recorded case must reproduce in replay mode
        let o = scen::replay(prop, &f.case);
        let ok = o.viol.as_ref().map_or(false, |v| v.class == *class);
        if !ok {
            eprintln!("HARNESS ERROR: run {} class {class} does not reproduce in replay mode ({:?})", f.run, o.viol.map(|v| v.class));
            harness_err.store(true, Ordering::Relaxed);
            continue;
        }
        let is_known = known.iter().find(|k| k.prop == prop && k.class == *class);
        let min = minimise(prop, &f.case, class);
        let o2 = scen::replay(prop, &min);
        let v2 = o2.viol.clone().unwrap_or(f.viol.clone());
        let path = if is_known.is_some() { format!("replays/KNOWN-{prop}-{}.json", sanitize(class)) } else { format!("replays/{prop}-{seed}-{}-{}.json", f.run, sanitize(class)) };
        let j = json!({
            "property": prop,
            "class": class,
            "message": v2.msg,
            "props": v2.props,
            "seed": seed,
            "run": f.run,
            "step": v2.step,
            "ops_original_len": f.case.len(),
            "ops_minimised_len": min.len(),
            "faults": o2.faults,
            "case": min,
            "events_tail": o2.log.iter().rev().take(40).rev().collect::<Vec<_>>(),
        });
        std::fs::write(&path, serde_json::to_string_pretty(&j).unwrap()).ok();
        let abs = std::fs::canonicalize(&path).map(|p| p.display().to_string()).unwrap_or(path.clone());
        if let Some(k) = is_known {
            if !known_seen.contains(class) {
                println!("KNOWN-FINDING: property={prop} class={class} {} (replay {path})", k.text);
                known_seen.push(class.clone());
            }
            continue;
        }
        println!("violation class={class} run={} ops {} -> {} :: {}", f.run, f.case.len(), min.len(), v2.msg);
        println!("VIOLATION property={prop} replay={abs}");
        violations += 1;
        exit = 1;
        let _ = &f.log;
    }
    let wall = t0.elapsed().as_secs_f64();
    if trace_hash {
        println!("TRACE-HASH {:016x}", a.trace_hash);
    }
    let unreached: Vec<&str> = expected_probes(prop).into_iter().filter(|p| a.stats.probes.get(p).cloned().unwrap_or(0) == 0).collect();
    println!(
        "runs={} steps={} sim_ms={} distinct_shapes={} distinct_nontrivial={} distinct_states={} faults={:?} wall={:.1}s runs/h={:.0}",
        a.runs,
        a.steps,
        a.sim_ms,
        a.shapes.len(),
        a.nontrivial_shapes.len(),
        a.states.len(),
        a.faults,
        wall,
        a.runs as f64 / wall * 3600.0
    );
    if !a.foreign.is_empty() {
        println!("runs ended early by violations of other properties: {:?}", a.foreign);
    }
    if !unreached.is_empty() {
        println!("probes not reached: {:?}", unreached);
    }
    if write_evidence {
        a.samples.sort_by_key(|s| s.0);
        let (real, stub) = scen::components();
        let ev = json!({
            "property_id": prop,
            "tier": if tier == Tier::Quick { "quick" } else { "thorough" },
            "seed": seed,
            "level": level_of(prop),
            "coverage": {
                "evaluations": a.runs,
                "distinct_nontrivial": a.nontrivial_shapes.len(),
                "rule": rule_of(prop),
                "samples": a.samples.iter().take(3).map(|(r, c)| json!({"run": r, "case": c})).collect::<Vec<_>>(),
                "distinct_op_sequences": a.shapes.len(),
                "distinct_states": a.states.len(),
                "steps_total": a.steps,
                "frames_total": a.stats.frames,
                "events_total": a.stats.events,
                "round_trips_total": a.stats.round_trips,
                "simulated_ms_total": a.sim_ms,
                "runs_per_hour": (a.runs as f64 / wall.max(0.001) * 3600.0) as u64,
                "seeds": {"verif_seed": seed, "first_run": 0, "last_run": a.runs.saturating_sub(1)},
                "faults_fired": a.faults,
                "probes": a.stats.probes,
                "unreached_probes": unreached,
                "foreign_violation_runs": a.foreign,
                "known_findings_seen": known_seen,
                "corpus_cases_replayed": corpus_cases,
                "violation_classes": a.own,
                "components": {"real": real, "stub": stub},
                "exhaustive": false,
            },
            "assumptions": assumptions(prop),
            "wall_s": wall,
            "violations": violations,
        });
        std::fs::write(format!("evidence/{prop}.json"), serde_json::to_string_pretty(&ev).unwrap()).ok();
    }
    if harness_err.load(Ordering::Relaxed) {
        return 2;
    }
    exit
}

fn sanitize(s: &str) -> String {
    s.chars().map(|c| if c.is_ascii_alphanumeric() || c == '-' { c } else { '_' }).collect()
}

fn absorb(a: &mut Agg, prop: &str, run: u64, case: &Case, o: &Outcome, trace_hash: bool) {
    a.runs += 1;
    a.steps += o.steps;
    a.sim_ms += o.sim_ms;
    a.stats.merge(&o.stats);
    for (k, v) in &o.faults {
        *a.faults.entry(k.clone()).or_insert(0) += v;
    }
    if a.shapes.len() < SET_CAP {
        a.shapes.insert(o.shape);
    }
    if o.nontrivial && a.nontrivial_shapes.len() < SET_CAP {
        a.nontrivial_shapes.insert(o.shape);
    }
    for s in &o.states {
        if a.states.len() < 2_000_000 {
            a.states.insert(*s);
        }
    }
    if let Some(v) = &o.viol {
        if matches_prop(v, prop) {
            *a.own.entry(v.class.clone()).or_insert(0) += 1;
        } else {
            *a.foreign.entry(format!("{:?}/{}", v.props, v.class)).or_insert(0) += 1;
        }
    }
    // three samples: lowest run indices that are fault-free, with a loss/crash, and longest
    if a.samples.len() < 3 && o.viol.is_none() && o.nontrivial && (run % 7 == 0 || run < 3) && case.len() <= 25 {
        a.samples.push((run, case.clone()));
    }
    if trace_hash {
        // order-independent combination: runs are independent
        let mut h = std::collections::hash_map::DefaultHasher::new();
        use std::hash::{Hash, Hasher};
        run.hash(&mut h);
        o.log.hash(&mut h);
        o.viol.as_ref().map(|v| v.class.clone()).hash(&mut h);
        o.steps.hash(&mut h);
        a.trace_hash = a.trace_hash.wrapping_add(h.finish());
    }
}

fn merge(a: &mut Agg, b: Agg) {
    a.runs += b.runs;
    a.steps += b.steps;
    a.sim_ms += b.sim_ms;
    a.stats.merge(&b.stats);
    for (k, v) in b.faults {
        *a.faults.entry(k).or_insert(0) += v;
    }
    a.shapes.extend(b.shapes);
    a.nontrivial_shapes.extend(b.nontrivial_shapes);
    a.states.extend(b.states);
    for (k, v) in b.foreign {
        *a.foreign.entry(k).or_insert(0) += v;
    }
    for (k, v) in b.own {
        *a.own.entry(k).or_insert(0) += v;
    }
    a.samples.extend(b.samples);
    a.trace_hash = a.trace_hash.wrapping_add(b.trace_hash);
}

fn level_of(prop: &str) -> &'static str {
    match prop {
        "C09" | "C16" => "fault_enumeration",
        _ => "exploration",
    }
}

fn rule_of(prop: &str) -> String {
    format!(
        "seeded search: run i of {prop} draws a swarm configuration and an op list from xoshiro(VERIF_SEED, {prop}, i); a run is non-trivial when it completed at least one request/acknowledgement round trip; distinct = distinct op-kind sequences (hash set) among the non-trivial runs"
    )
}

fn assumptions(_prop: &str) -> Vec<&'static str> {
    vec![
        "the application stub uses the library as documented (DESIGN 2.4): events handled in order, notify_closed after a close request or a loss, timers fired only when armed, ids from acquire/register",
        "the transport is an ordered lossless byte stream per connection; loss only as loss of the whole connection",
        "reference models and the wire codec of the harness are written from the MQTT specifications and are trusted",
        "a clean batch is evidence over the sampled schedules and fault sequences, not a proof",
    ]
}

fn expected_probes(prop: &str) -> Vec<&'static str> {
    match prop {
        "C06" => vec!["publish_stored", "resume_with_stored", "resume_with_stored_pubrel", "c06_unmatched_ack", "erase_stored", "publish_stored_offline", "qos2_completed"],
        "C07" => vec!["qos2_dup_suppressed", "publish_delivered", "crash_restore"],
        "C08" => vec!["c08_refusal_release", "c08_close_release", "c08_suback_release", "quiescence_reached", "c08_all_ids_in_use", "c08_exhaustion_reported"],
        "C12" => vec!["c12_inbound_exceeded", "qos1_completed", "qos2_error_pubrec", "resume_with_stored"],
        "C13" => vec!["c13_alias_only_sent", "c13_alias_bound", "c13_alias_rebound", "c13_invalid_alias_received", "c13_alias_resolved_on_receive", "c13_regulate_for_store"],
        "C14" => vec!["c14_oversize_received", "oversize_stored_dropped"],
        "C15" => vec!["c15_pingreq_rearmed", "c15_server_rearmed", "c15_expiry_pingreq_send", "c15_expiry_timeout", "c15_cancel", "c15_pingreq_sent", "c15_keepalive_liveness_held", "c15_keepalive_liveness_runs", "c15_pingresp_timeout_changed_while_armed"],
        "C01" => vec!["c01_publish_delivered_end_to_end", "c01_quiescence_reached", "loss_mid_frame", "loss_with_bytes_in_flight", "resume_with_stored", "resume_with_stored_pubrel", "qos2_dup_suppressed", "crash_restore"],
        "C09" => vec!["c09_partitions_checked", "c09_bursts_enumerated_completely_up_to_2_cuts", "c09_bad_remaining_length", "c09_multi_burst_history"],
        "C10" => vec!["c10_history_with_adversarial_traffic", "c10_history_ends_with_partial_frame", "c10_history_ends_with_armed_timer", "c10_history_ends_with_pending_subscribe", "c10_history_ends_with_stored_packets", "c10_new_session_by_session_not_present"],
        "C11" => vec!["c11_matrix_cells", "c11_matrix_cells_refused", "c11_compile_time_table_checked", "c11_refused_call_injected"],
        "C16" => vec!["c16_crash_points", "c16_crash_with_stored_packets", "c16_crash_with_handled_qos2", "c16_malformed_export_duplicates", "c16_restore_after_connect"],
        "C17" => vec!["c17_matrix_cells", "c17_matrix_cells_rejected", "c17_version_twin_runs", "c17_version_detected", "c17_connect_on_established", "c17_connack_on_established", "c17_forbidden_kind", "c17_version_twin_restored_session"],
        "C05" => vec!["c05_reconnect_after_adversary", "c09_bad_remaining_length", "error_reported"],
        "C20" => vec!["c20_range_exhausted", "c20_three_or_more_intervals", "c20_u32_extreme_range", "c20_single_value_range", "c20_enumerated_case"],
        "C19" => vec!["c19_disconnect_sent", "c19_connack_refusal_sent", "c19_keepalive_timeout", "c19_close_requested"],
        _ => vec![],
    }
}
